#!/usr/bin/env python3
"""Prints the markdown table of seeded changes (from /verif/seeded/*/meta.json) for DESIGN.md 9.6."""
import glob, json, os, re
rows = []
for d in sorted(glob.glob("/verif/seeded/C??-*")):
    if not os.path.exists(d + "/meta.json"):
        continue        # (evaluation of this change is still running)
    m = json.load(open(d + "/meta.json"))
    notes = open(d + "/notes.md").read() if os.path.exists(d + "/notes.md") else ""
    first = ""
    for line in notes.splitlines():
        t = line.strip(" #*-")
        if len(t) > 25 and not t.lower().startswith(("mutant", "notes", "what")):
            first = t
            break
    own = m.get("own_check", {})
    h = m.get("history", [])
    hist = h if isinstance(h, str) else "; ".join(h)
    prop = m.get("breaks_property") or m.get("property") or os.path.basename(d)[:3]
    rc = own.get("exit")
    if rc is None or (own.get("check") and own.get("check") != prop):
        # (the change was relabelled: the verdict of the check that owns the property it really breaks decides)
        # no separate re-run of the own check was filed: the full evaluation decides
        rc = 1 if prop in m.get("caught_by", []) else 0
    if m.get("valid_against"):
        hist = (hist + "; " if hist else "") + "valid against " + m["valid_against"]
    rows.append((os.path.basename(d), rc, ", ".join(m.get("caught_by", [])), hist, first[:150]))
print("| change | own check | reported by (quick tier) | note |")
print("|---|---|---|---|")
for b, rc, caught, hist, first in rows:
    print(f"| {b} | {'VIOLATION' if rc == 1 else 'missed'} | {caught} | {hist} |")
