#!/bin/sh
# usage: tools/eval_seeded.sh <worktree-with-MUTANT-dir> <PROP> <A|B> [checks...]
# Confirms a sub-agent's change (applies cleanly, repository suite passes with it, its demonstration fails
# with it and passes without it), runs the checks against it, and files it under /verif/seeded/<PROP>-<X>/.
SRCWT="$1"; PROP="$2"; X="$3"; shift 3
CHECKS="${*:-C01 C02 C03 C04 C05 C06 C07 C08 C09 C10 C11 C12 C13 C14 C15 C16 C17 C18 C19 C20}"
M="$SRCWT/MUTANT/$X"
DEST="/verif/seeded/${DESTNAME:-$PROP-$X}"
[ -f "$M/patch.diff" ] || { echo "$PROP-$X: no patch"; exit 1; }
WT="/tmp/ev-${DESTNAME:-$PROP-$X}-$$"
git -C /repo worktree add --detach "$WT" HEAD -q || exit 2
mkdir -p "$WT/MUTANT/$X"; cp "$M/demo.py" "$WT/MUTANT/$X/demo.py"   # some demos locate src relative to their own path
clean_demo=$(cd "$WT" && PYTHONPATH="$WT/src" timeout 300 /venv/bin/python "$WT/MUTANT/$X/demo.py" >/tmp/ev-${DESTNAME:-$PROP-$X}.clean.log 2>&1; echo $?)
if ! git -C "$WT" apply "$M/patch.diff"; then echo "$PROP-$X PATCH-FAILS"; git -C /repo worktree remove --force "$WT"; exit 1; fi
suite=$(cd "$WT" && PYTHONPATH="$WT/src" timeout 600 /venv/bin/python -m pytest -q -p no:cacheprovider 2>&1 | tail -1)
mut_demo=$(cd "$WT" && PYTHONPATH="$WT/src" timeout 300 /venv/bin/python "$WT/MUTANT/$X/demo.py" >/tmp/ev-${DESTNAME:-$PROP-$X}.mut.log 2>&1; echo $?)
mkdir -p "$DEST"; cp "$M/patch.diff" "$M/demo.py" "$DEST/"; [ -f "$M/notes.md" ] && cp "$M/notes.md" "$DEST/"
OUT="/tmp/evout-${DESTNAME:-$PROP-$X}"; rm -rf "$OUT"; mkdir -p "$OUT"
caught=""; res=""
for c in $CHECKS; do
  HSVERIF_SRC="$WT/src" HSVERIF_EVIDENCE_DIR="$OUT" HSVERIF_REPLAY_DIR="$OUT" VERIF_TIER="${VERIF_TIER:-quick}" timeout 3600 /verif/check "$c" > "$OUT/$c.log" 2>&1
  rc=$?
  res="$res $c=$rc"
  [ "$rc" = "1" ] && caught="$caught $c"
done
git -C /repo worktree remove --force "$WT"
first=$(for c in $caught; do grep -m1 signature "$OUT/$c.log" | cut -c1-260; break; done)
/venv/bin/python - "$DEST" "$PROP" "$X" "$suite" "$clean_demo" "$mut_demo" "$caught" "$res" "$first" <<'PY'
import json, sys, os
dest, prop, x, suite, clean, mut, caught, res, first = sys.argv[1:10]
meta = {"property": prop, "variant": x, "source": "independent sub-agent (given only the property text and a scratch worktree)",
        "confirmed": {"repository_suite_with_change": suite, "demo_exit_on_unchanged_tree": int(clean), "demo_exit_with_change": int(mut)},
        "valid": suite.startswith("250 passed") and clean == "0" and mut != "0",
        "checks_run": res.strip(), "caught_by": caught.split(), "tier": os.environ.get("VERIF_TIER", "quick"),
        "first_signature": first.strip()}
notes = os.path.join(dest, "notes.md")
if os.path.exists(notes):
    meta["needs_to_manifest"] = "see notes.md"
json.dump(meta, open(os.path.join(dest, "meta.json"), "w"), indent=1)
print(f"{prop}-{x}: valid={meta['valid']} suite='{suite}' demo clean={clean} mutant={mut} caught_by={caught.strip() or 'NONE'}")
PY
