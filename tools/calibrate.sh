#!/bin/sh
# Runs every calibration patch against the check of its own property (quick tier) and the repository's
# own test suite; prints one line per patch. usage: tools/calibrate.sh [dir] [parallelism]
DIR="${1:-/verif/seeded/calibration}"
P="${2:-4}"
ls "$DIR"/*.diff | xargs -P "$P" -I{} sh -c '
  f="{}"; b=$(basename "$f" .diff); prop=${b%%_*}
  WT=/tmp/cal-$b-$$
  git -C /repo worktree add --detach "$WT" HEAD -q 2>/dev/null
  git -C "$WT" apply "$f" || { echo "$b PATCH-FAILS"; git -C /repo worktree remove --force "$WT"; exit 0; }
  t=$(cd "$WT" && PYTHONPATH="$WT/src" timeout 120 /venv/bin/python -m pytest -q -p no:cacheprovider -x 2>&1 | tail -1)
  OUT=/tmp/calout-$b; rm -rf "$OUT"; mkdir -p "$OUT"
  HSVERIF_SRC="$WT/src" HSVERIF_EVIDENCE_DIR="$OUT" HSVERIF_REPLAY_DIR="$OUT" VERIF_TIER=${VERIF_TIER:-quick} /verif/check "$prop" > "$OUT/log" 2>&1
  rc=$?
  echo "$b | check $prop exit=$rc viol=$(grep -c "^VIOLATION" "$OUT/log") | suite: $t | $(grep -m1 signature "$OUT/log" | cut -c1-160)"
  git -C /repo worktree remove --force "$WT"
'
