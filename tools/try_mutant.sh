#!/bin/sh
# usage: tools/try_mutant.sh <patch.diff> <name> [check ids...]
# Applies the patch to a scratch worktree of /repo (outside /repo and /verif), runs the given checks
# (default: all) against it through the HSVERIF_SRC calibration override, removes the worktree.
# Evidence and replays of these runs go to a scratch directory, never to /verif/evidence.
set -u
PATCH="$1"; NAME="$2"; shift 2
CHECKS="${*:-C01 C02 C03 C04 C05 C06 C07 C08 C09 C10 C11 C12 C13 C14 C15 C16 C17 C18 C19 C20}"
WT="/tmp/mt-$NAME-$$"
OUT="/tmp/mtout-$NAME"
rm -rf "$OUT"; mkdir -p "$OUT/evidence" "$OUT/replays"
git -C /repo worktree add --detach "$WT" HEAD -q || exit 2
if ! git -C "$WT" apply "$PATCH"; then echo "PATCH DOES NOT APPLY"; git -C /repo worktree remove --force "$WT"; exit 2; fi
for c in $CHECKS; do
  HSVERIF_SRC="$WT/src" HSVERIF_EVIDENCE_DIR="$OUT/evidence" HSVERIF_REPLAY_DIR="$OUT/replays" \
    VERIF_TIER="${VERIF_TIER:-quick}" timeout 3600 /verif/check "$c" > "$OUT/$c.log" 2>&1
  rc=$?
  nv=$(grep -c '^VIOLATION' "$OUT/$c.log")
  echo "$NAME $c exit=$rc violations=$nv $(grep -m1 'signature' "$OUT/$c.log" | cut -c1-220)"
done
git -C /repo worktree remove --force "$WT"
