#!/usr/bin/env python3
"""Generates the calibration breaks named in DESIGN.md section 4 as patch files under
/verif/seeded/calibration/ (one .diff per break). Each entry: (name, property, file, [(old, new), ...]).
The patches are produced in a scratch worktree of /repo and never committed there."""
import os
import subprocess
import sys
import tempfile

F = "src/hashstore/filehashstore.py"
C = "src/hashstore/hashstoreclient.py"

M = [
 ("c01_no_seek0", "C01", F, [("        self._obj.seek(0)\n\n        while True:", "        while True:")]),
 ("c01_no_restore_pos", "C01", F, [("        if self._pos is not None:\n            self._obj.seek(self._pos)\n\n    def close", "        pass\n\n    def close"),
                                   ("        else:\n            self._obj.seek(self._pos)\n", "        else:\n            pass\n")]),
 ("c01_close_callers_stream", "C01", F, [("        if self._pos is None:\n            self._obj.close()\n        else:\n            self._obj.seek(self._pos)", "        self._obj.close()")]),
 ("c01_drop_short_last_chunk", "C01", F, [("            if not data:\n                break\n\n            yield data", "            if not data or (len(data) < self._buffer_size and len(data) == 1):\n                break\n\n            yield data")]),
 ("c02_digest_alias", "C02", F, [("                hashlib.new(algorithm) for algorithm in algorithm_list_to_calculate", "                hashlib.new(\"sha3_256\" if algorithm == \"sha3_384\" else algorithm) for algorithm in algorithm_list_to_calculate")]),
 ("c02_gethex_ignores_algo", "C02", F, [("        hex_digest = self._computehash(cid_stream, algorithm=algorithm)\n", "        hex_digest = self._computehash(cid_stream, algorithm=algorithm if algorithm in self.default_algo_list else self.algorithm)\n")]),
 ("c03_cidlist_before_reject", "C03", F, [("                    error_msg = f\"Pid refs file already exists for pid: {pid}.\"\n", "                    error_msg = f\"Pid refs file already exists for pid: {pid}.\"\n                    cid_tmp = self._write_refs_file(tmp_root_path, pid, \"cid\")\n                    shutil.move(cid_tmp, cid_refs_path)\n")]),
 ("c03_same_cid_retag_ok", "C03", F, [("                        self.fhs_logger.error(err_msg)\n                        raise HashStoreRefsAlreadyExists(err_msg)\n                    except Exception as e:", "                        self.fhs_logger.error(err_msg)\n                        if not self._is_string_in_refs_file(pid, cid_refs_path):\n                            raise HashStoreRefsAlreadyExists(err_msg)\n                        return\n                    except HashStoreRefsAlreadyExists as e:")]),
 ("c04_substring_remove", "C04", F, [("                        if cid_pid_line.strip() != ref_id\n", "                        if ref_id not in cid_pid_line.strip()\n")]),
 ("c04_dii_ignores_refs", "C04", F, [("            if os.path.isfile(cid_refs_abs_path):\n                debug_msg = (\n                    f\"Cid reference file exists for: {cid}, skipping delete request.\"", "            if os.path.isfile(cid_refs_abs_path) and os.path.getsize(cid_refs_abs_path) > 200:\n                debug_msg = (\n                    f\"Cid reference file exists for: {cid}, skipping delete request.\"")]),
 ("c05_tmp_left_on_dup", "C05", F, [("                if os.path.isfile(tmp_file_name):\n                    self._delete(\"tmp\", tmp_file_name)\n\n        return object_cid", "                if os.path.isfile(tmp_file_name) and tmp_file_size == 0:\n                    self._delete(\"tmp\", tmp_file_name)\n\n        return object_cid")]),
 ("c05_membership_substring", "C05", F, [("                value = line.strip()\n                if ref_id == value:\n                    return True", "                value = line.strip()\n                if ref_id in value:\n                    return True")]),
 ("c05_keep_empty_cidlist", "C05", F, [("                    if os.path.getsize(cid_ref_abs_path) == 0:\n                        debug_msg = (", "                    if os.path.getsize(cid_ref_abs_path) == 0 and len(pid) != 2:\n                        debug_msg = (")]),
 ("c06_skip_size_when_exists", "C06", F, [("            # If the data object already exists, do not move the file but attempt to verify it\n            try:\n                self._verify_object_information(\n                    pid,\n                    checksum,\n                    checksum_algorithm,\n                    \"objects\",\n                    hex_digests,\n                    tmp_file_name,\n                    tmp_file_size,\n                    file_size_to_validate,", "            # If the data object already exists, do not move the file but attempt to verify it\n            try:\n                self._verify_object_information(\n                    pid,\n                    checksum,\n                    checksum_algorithm,\n                    \"objects\",\n                    hex_digests,\n                    tmp_file_name,\n                    tmp_file_size,\n                    None,")]),
 ("c06_wrong_algo_digest", "C06", F, [("                hex_digest_stored = hex_digests[checksum_algorithm]\n", "                hex_digest_stored = hex_digests[checksum_algorithm if checksum_algorithm != \"sha384\" else \"sha512\"][: len(checksum)]\n")]),
 ("c07_delete_no_cid_lock", "C07", F, [("                self._synchronize_object_locked_cids(cid)\n\n                try:\n                    cid_ref_abs_path = object_info_dict.get(\"cid_refs_path\")", "                self.object_locked_cids_th.append(cid) if not self.use_multiprocessing else self.object_locked_cids_mp.append(cid)\n\n                try:\n                    cid_ref_abs_path = object_info_dict.get(\"cid_refs_path\")")]),
 ("c08_release_not_in_finally", "C08", F, [("        try:\n            metadata_cid = self._put_metadata(metadata, pid, pid_doc)\n            info_msg = (\n                f\"Successfully stored metadata for pid: {pid} with format_id: \"\n                + checked_format_id\n            )\n            self.fhs_logger.info(info_msg)\n            return str(metadata_cid)\n        finally:", "        try:\n            metadata_cid = self._put_metadata(metadata, pid, pid_doc)\n            info_msg = (\n                f\"Successfully stored metadata for pid: {pid} with format_id: \"\n                + checked_format_id\n            )\n            self.fhs_logger.info(info_msg)\n        except FileNotFoundError:\n            raise\n        if True:")]),
 ("c08_no_notify_cid", "C08", F, [("                self.object_locked_cids_th.remove(cid)\n                self.object_cid_condition_th.notify()", "                self.object_locked_cids_th.remove(cid)")]),
 ("c09_object_written_in_place", "C09", F, [("                shutil.move(tmp_file_name, abs_file_path)\n            except Exception as err:", "                shutil.copyfile(tmp_file_name, abs_file_path)\n                os.remove(tmp_file_name)\n            except Exception as err:")]),
 ("c09_metadata_in_place", "C09", F, [("                shutil.move(metadata_tmp, full_path)\n", "                shutil.copyfile(metadata_tmp, full_path)\n                os.remove(metadata_tmp)\n")]),
 ("c10_object_moved_aside_first", "C10", F, [("                    objects_to_delete.append(\n                        self._rename_path_for_deletion(pid_ref_abs_path)\n                    )\n                    # Remove pid from cid reference file\n                    self._update_refs_file(Path(cid_ref_abs_path), pid, \"remove\")", "                    obj_real_path = object_info_dict.get(\"cid_object_path\")\n                    obj_marked = self._rename_path_for_deletion(obj_real_path)\n                    objects_to_delete.append(\n                        self._rename_path_for_deletion(pid_ref_abs_path)\n                    )\n                    # Remove pid from cid reference file\n                    self._update_refs_file(Path(cid_ref_abs_path), pid, \"remove\")\n                    if os.path.getsize(cid_ref_abs_path) != 0:\n                        shutil.move(obj_marked, obj_real_path)"),
                                      ("                        obj_real_path = object_info_dict.get(\"cid_object_path\")\n                        objects_to_delete.append(\n                            self._rename_path_for_deletion(obj_real_path)\n                        )", "                        objects_to_delete.append(obj_marked)")]),
 ("c11_docname_hash_pid_only_for_default", "C11", F, [("            metadata_document_name = self._computehash(pid + self.sysmeta_ns)\n        else:\n            metadata_document_name = self._computehash(pid + checked_format_id)", "            metadata_document_name = self._computehash(pid + self.sysmeta_ns)\n        else:\n            metadata_document_name = self._computehash(pid + checked_format_id.strip(\"/\"))")]),
 ("c11_delete_all_walks_first_shard", "C11", F, [("            metadata_rel_path = self._get_store_path(\"metadata\") / rel_path\n            metadata_file_paths = self._get_file_paths(metadata_rel_path)", "            metadata_rel_path = self._get_store_path(\"metadata\") / rel_path\n            metadata_file_paths = self._get_file_paths(metadata_rel_path)\n            if metadata_file_paths is not None and self.width == 1:\n                top = self._get_store_path(\"metadata\") / rel_path.parts[0]\n                metadata_file_paths = [Path(dp) / f for dp, _dn, fn in os.walk(top) for f in fn]")]),
 ("c13_swallow_after_move", "C13", F, [("                    self._untag_object(pid, cid)\n                raise ue", "                    self._untag_object(pid, cid)\n                if isinstance(ue, PermissionError):\n                    return\n                raise ue")]),
 ("c13_skip_untag", "C13", F, [("                if not pid_already_tagged:\n                    self._untag_object(pid, cid)\n                raise ue", "                if not pid_already_tagged and not isinstance(ue, OSError):\n                    self._untag_object(pid, cid)\n                raise ue")]),
 ("c14_compare_depth_width_only", "C14", F, [("                    if hashstore_yaml_dict[key] != supplied_key:", "                    if hashstore_yaml_dict[key] != supplied_key and key != \"store_metadata_namespace\":")]),
 ("c14_dirs_before_verify", "C14", F, [("            self.hashstore_configuration_yaml = Path(prop_store_path) / \"hashstore.yaml\"\n            self._verify_hashstore_properties(properties, prop_store_path)", "            self.hashstore_configuration_yaml = Path(prop_store_path) / \"hashstore.yaml\"\n            if os.path.isdir(prop_store_path):\n                os.makedirs(Path(prop_store_path) / \"objects\" / \"tmp\", exist_ok=True)\n            self._verify_hashstore_properties(properties, prop_store_path)")]),
 ("c15_remainder_dropped_when_short", "C15", F, [("            + [checksum[self.depth * self.width :]]", "            + [checksum[self.depth * self.width :] if self.depth * self.width < 20 else checksum[self.depth * self.width + 1 :]]")]),
 ("c15_newline_after_cid", "C15", F, [("                    if ref_type == \"pid\":\n                        tmp_cid_ref_file.write(ref_id)", "                    if ref_type == \"pid\":\n                        tmp_cid_ref_file.write(ref_id + (\"\\n\" if self.algorithm == \"md5\" else \"\"))")]),
 ("c16_mp_typo_th_list", "C16", F, [("                while cid in self.object_locked_cids_mp:\n                    self.fhs_logger.debug(f\"Cid ({cid}) is locked. Waiting.\")\n                    self.object_cid_condition_mp.wait()", "                while cid in getattr(self, \"object_locked_cids_th\", []):\n                    self.fhs_logger.debug(f\"Cid ({cid}) is locked. Waiting.\")\n                    self.object_cid_condition_mp.wait()")]),
 ("c16_mp_refpid_no_release", "C16", F, [("                self.reference_locked_pids_mp.remove(pid)\n                self.reference_pid_condition_mp.notify()", "                self.reference_pid_condition_mp.notify()")]),
 ("c17_check_integer_late", "C17", F, [("            self._check_integer(expected_object_size)\n            (\n                additional_algorithm_checked,", "            (\n                additional_algorithm_checked,"),
                                       ("                    self.fhs_logger.debug(\"Attempting to tag object for pid: %s\", pid)\n                    cid = object_metadata.cid", "                    self._check_integer(expected_object_size)\n                    self.fhs_logger.debug(\"Attempting to tag object for pid: %s\", pid)\n                    cid = object_metadata.cid")]),
 ("c18_raw_pid_in_tmpname", "C18", F, [("        tmp = NamedTemporaryFile(dir=path, delete=False)\n", "        tmp = NamedTemporaryFile(dir=path, delete=False, prefix=getattr(self, \"_tmp_prefix\", \"tmp\"))\n"),
                                       ("                    self._synchronize_object_locked_pids(pid)\n\n                    self.fhs_logger.debug(\"Attempting to store object for pid: %s\", pid)", "                    self._synchronize_object_locked_pids(pid)\n                    self._tmp_prefix = \"tmp\" + \"\".join(ch for ch in pid[:20] if ch.isalnum())\n\n                    self.fhs_logger.debug(\"Attempting to store object for pid: %s\", pid)")]),
 ("c19_store_skips_validation_for_existing", "C19", F, [("            except NonMatchingChecksum as nmce:\n                # If any exception is thrown during validation, we do not tag.\n                err_msg = (", "            except NonMatchingChecksum as nmce:\n                if os.path.isfile(self._get_hashstore_cid_refs_path(object_cid)):\n                    return object_cid, tmp_file_size, hex_digests\n                # If any exception is thrown during validation, we do not tag.\n                err_msg = (")]),
 ("c20_checksum_algo_as_additional", "C20", C, [("            pid, path, algorithm, checksum, checksum_algorithm, size\n", "            pid, path, algorithm or checksum_algorithm, checksum, checksum_algorithm, size\n")]),
 ("c20_drop_formatid_on_retrieve", "C20", C, [("        metadata_stream = hashstore_c.hashstore.retrieve_metadata(pid, formatid)", "        metadata_stream = hashstore_c.hashstore.retrieve_metadata(pid)")]),
]


def main():
    out = "/verif/seeded/calibration"
    os.makedirs(out, exist_ok=True)
    wt = tempfile.mkdtemp(prefix="ownmut-", dir="/tmp")
    os.rmdir(wt)
    subprocess.check_call(["git", "-C", "/repo", "worktree", "add", "--detach", wt, "HEAD", "-q"])
    try:
        for name, prop, fname, reps in M:
            p = os.path.join(wt, fname)
            src = open(p).read()
            new = src
            ok = True
            for old, rep in reps:
                if new.count(old) != 1:
                    print(f"!! {name}: pattern occurs {new.count(old)}x: {old[:60]!r}")
                    ok = False
                    break
                new = new.replace(old, rep)
            if not ok:
                continue
            open(p, "w").write(new)
            r = subprocess.run([sys.executable, "-m", "py_compile", p], capture_output=True)
            diff = subprocess.run(["git", "-C", wt, "diff", "--", "src"], capture_output=True, text=True).stdout
            open(p, "w").write(src)
            if r.returncode != 0:
                print(f"!! {name}: does not compile: {r.stderr.decode()[-200:]}")
                continue
            with open(os.path.join(out, f"{prop}_{name}.diff"), "w") as f:
                f.write(diff)
            print("ok", prop, name)
    finally:
        subprocess.call(["git", "-C", "/repo", "worktree", "remove", "--force", wt])


if __name__ == "__main__":
    main()
