#!/usr/bin/env python3
"""Regenerates /verif/MANIFEST.json from the table below and validates it against the schema."""
import json
import os
import subprocess
import sys

HERE = os.path.dirname(os.path.dirname(os.path.abspath(__file__)))

SEQ_NOTE = ("Trusted: CPython 3.12, hashlib, the scratch file system (tmpfs /dev/shm or $TMPDIR), the "
            "harness' reference model / independent layout code (cross-checked against the real code on "
            "every run). Held means: on the executions listed in the evidence file, nothing more.")

CHECKS = {
    # id: (category, engine, technique, text, design_ref, note)
    "C01": ("exploration", "seq", "runtime monitor: differential oracle (hashlib / byte equality / stream state) over generated store-retrieve episodes with interleaved histories",
            "Post-condition monitor on real store_object / retrieve_object calls across 5 data kinds x offsets x 5 algorithms x 3 shard shapes x buffer-boundary sizes x random histories on other pids; exploration is the honest level for a universal claim over inputs and histories.",
            "4/C01", SEQ_NOTE),
    "C05": ("exploration", "seq", "runtime monitor: store-directory abstraction compared with a reference model after every call (bounded-exhaustive + random call sequences)",
            "After every call of every sequence (all sequences up to length 3/4 over a 26-op menu, plus long random ones over the whole API) the two reference indexes, the object set and residue are compared with a reference model and a structural invariant.",
            "4/C05", SEQ_NOTE),
}

NOT_YET = {}


def main():
    props = [json.loads(l) for l in open(os.path.join(HERE, "properties.jsonl"))]
    ids = [p["id"] for p in props]
    checks = []
    for pid in ids:
        if pid not in CHECKS:
            continue
        cat, engine, tech, text, ref, note = CHECKS[pid]
        checks.append({
            "property_id": pid,
            "quick_cmd": f"VERIF_TIER=quick ./check {pid}",
            "thorough_cmd": f"VERIF_TIER=thorough ./check {pid}",
            "evidence_file": f"/verif/evidence/{pid}.json",
            "replay_cmd_template": f"./check {pid} --replay {{path}}",
            "engine": engine,
            "level_claimed": {"category": cat, "text": text, "design_ref": "DESIGN.md section " + ref},
            "level_note": note,
            "technique": tech,
        })
    na = [{"property_id": pid, "reason": NOT_YET.get(pid, "check not built yet in this round (planned in DESIGN.md section 4); not claimed until its monitor exists and has been calibrated")}
          for pid in ids if pid not in CHECKS]
    man = {
        "version": 1,
        "setup_cmd": "cd /verif && /venv/bin/python -m compileall -q hsverif && /venv/bin/python -c \"import sys; sys.path.insert(0,'/verif'); from hsverif.common import load_repo; load_repo(); print('hsverif ready')\"",
        "hooks": {
            "guard": "HASHSTORE_VERIF",
            "enable": "none needed: all instrumentation is applied at run time from the harness process (module/instance attribute interposition); /repo carries no hook code. The harness sets HASHSTORE_VERIF=1 in its own processes for the record.",
            "baseline_off_cmd": "cd /repo && /venv/bin/python -m pytest -ra -q -p no:cacheprovider --timeout=900 --continue-on-collection-errors",
            "source_commits": [],
            "add_only": True,
        },
        "engines": [
            {"name": "seq", "path": "/verif/hsverif/seqengine.py", "serves_properties": [c for c in CHECKS if CHECKS[c][1] == "seq"],
             "kind_free_text": "sequential differential monitor: real API calls, directory abstraction vs reference model after every call"},
        ],
        "checks": checks,
        "not_applicable": na,
        "notes": "Technique family: runtime monitoring. See DESIGN.md. Known findings: /verif/known_findings.json.",
    }
    path = os.path.join(HERE, "MANIFEST.json")
    with open(path, "w") as f:
        json.dump(man, f, indent=1)
        f.write("\n")
    try:
        import jsonschema
        jsonschema.validate(man, json.load(open("/root/.vp/MANIFEST.schema.json")))
        print("MANIFEST.json valid;", len(checks), "checks,", len(na), "not claimed")
    except ImportError:
        print("jsonschema not available; wrote without validation")


if __name__ == "__main__":
    main()
