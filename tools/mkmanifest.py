#!/usr/bin/env python3
"""Regenerates /verif/MANIFEST.json from the table below and validates it against the schema."""
import json
import os
import subprocess
import sys

HERE = os.path.dirname(os.path.dirname(os.path.abspath(__file__)))

SEQ_NOTE = ("Trusted: CPython 3.12, hashlib, the scratch file system (tmpfs /dev/shm or $TMPDIR), the "
            "harness' reference model / independent layout code (cross-checked against the real code on "
            "every run). Held means: on the executions listed in the evidence file, nothing more.")

CHECKS = {
    # id: (category, engine, technique, text, design_ref, note)
    "C01": ("exploration", "seq", "runtime monitor: differential oracle (hashlib / byte equality / stream state) over generated store-retrieve episodes with interleaved histories; plus post-condition / invariant monitors wrapped round the public methods while the repository's own test suite runs (another author's inputs)",
            "Post-condition monitor on real store_object / retrieve_object calls across 8 data kinds (incl. gzip, fdopen and replaced-on-disk streams) x offsets x 5 algorithms x 3 shard shapes x buffer-boundary sizes x random histories on other pids; exploration is the honest level for a universal claim over inputs and histories.",
            "4/C01", SEQ_NOTE),
    "C05": ("exploration", "seq", "runtime monitor: store-directory abstraction compared with a reference model after every call (bounded-exhaustive + random call sequences); plus post-condition / invariant monitors wrapped round the public methods while the repository's own test suite runs (another author's inputs)",
            "After every call of every sequence (all sequences up to length 3/4 over a 26-op menu, plus long random ones over the whole API) the two reference indexes, the object set and residue are compared with a reference model and a structural invariant.",
            "4/C05", SEQ_NOTE),
    "C02": ("exploration", "seq", "runtime monitor: post-condition on hex_digests / get_hex_digest against hashlib over long histories on one store instance, and over overlapping calls on one instance (scheduler-controlled statement-level schedules + free-running threads); plus post-condition / invariant monitors wrapped round the public methods while the repository's own test suite runs (another author's inputs)",
            "Every store_object / get_hex_digest result of 20-60 call histories on ONE long-lived instance is checked: key set == five defaults + the algorithms named in that call; values == hashlib; all 12 algorithms under every accepted spelling. History dependence is only reachable by running histories, hence exploration.",
            "4/C02", SEQ_NOTE),
    "C03": ("exploration", "seq", "runtime monitor: before/after directory abstraction around every re-bind attempt in bounded-exhaustive and random call sequences; linearizability oracle over scheduler-controlled triples with two binders of one pid; plus post-condition / invariant monitors wrapped round the public methods while the repository's own test suite runs (another author's inputs)",
            "All sequences up to length 3/4 over a 20-op menu that contain a store/tag on an already bound pid, plus random sequences with all data kinds and validation arguments; each attempt must raise an already-exists error and leave the abstraction unchanged (except a new unreferenced object).",
            "4/C03", SEQ_NOTE),
    "C04": ("exploration", "seq", "runtime monitor: retrieve every bound pid byte-for-byte after every call over all delete orders of sharing pids with interleaved hostile calls; invariant at a hook (no object unlinked while its cid list is non-empty) under scheduler-controlled interleavings, also with an I/O fault injected into one of the contending calls; plus post-condition / invariant monitors wrapped round the public methods while the repository's own test suite runs (another author's inputs)",
            "k=2..4 prefix-related pids share one object; every delete order x noise call (wrong-data delete_if_invalid, rejected stores, metadata) is run and every still-bound pid is retrieved after each call; last delete must remove the object.",
            "4/C04", SEQ_NOTE),
    "C06": ("exploration", "seq", "runtime monitor: independent verdict oracle (hashlib + len) over the full product of content x algorithm x spelling x checksum case x size x prior state x entry point; plus post-condition / invariant monitors wrapped round the public methods while the repository's own test suite runs (another author's inputs)",
            "The verdict and its consequences (exception class, binding, residue, object presence) are compared with an independent oracle on the full product (thorough) or a stratified sample (quick) of the input space the statement quantifies over.",
            "4/C06", SEQ_NOTE),
    "C11": ("exploration", "seq", "runtime monitor: metadata tree abstraction compared with a (pid, format)-keyed model after every call; plus post-condition / invariant monitors wrapped round the public methods while the repository's own test suite runs (another author's inputs)",
            "All sequences up to length 3 over a 30-44 op metadata menu with colliding pid/format concatenations, plus random length-40 sequences; every retrieve compared byte for byte, every state compared with the model.",
            "4/C11", SEQ_NOTE),
    "C14": ("exploration", "config", "runtime monitor: constructor outcome vs tuple-equality oracle + directory snapshot diff over creation x reopening configurations",
            "Constructor outcome compared with tuple equality of the four pinned values; refused opens must leave the snapshot identical; accepted reopens must serve existing data. thorough enumerates all 200x200 configuration pairs.",
            "4/C14", SEQ_NOTE),
    "C15": ("exploration", "config", "runtime monitor: full directory listing compared with an independent implementation of the README layout over the exhaustive configuration grid",
            "All 120 (depth, width, algorithm) configurations, several random identifier draws each; the complete (path, bytes) set must equal the independently computed one.",
            "4/C15", SEQ_NOTE),
    "C17": ("exploration", "config", "runtime monitor: byte-for-byte snapshot diff around rejected and read-only calls generated from a grammar of invalid arguments; plus post-condition / invariant monitors wrapped round the public methods while the repository's own test suite runs (another author's inputs)",
            "One and two invalid parameters per call for every public method, from empty and populated stores; exception class must be documented and the snapshot (files and directories) identical.",
            "4/C17", SEQ_NOTE),
    "C19": ("exploration", "seq", "runtime monitor: relational check - both storing procedures run on copies of the same store, abstractions and results compared",
            "From every start state reachable by histories of length <=2/3, both documented procedures are executed on copies of the store and compared (state, cid, size, digests, error class).",
            "4/C19", SEQ_NOTE),
    "C20": ("exploration", "cli", "runtime monitor: differential run of hashstoreclient.main() against the typed API call on copies of one store",
            "Every verb x option subset x valid/invalid value is run through the real client entry point and through the API; store abstraction, stdout values and exception classes are compared.",
            "4/C20", SEQ_NOTE + " -knbvm (Postgres) paths are out of reach."),
}

CONC_NOTE = ("Trusted: the cooperative scheduler and probe in hsverif/ (every shared file-system call and every condition-variable "
             "operation of the store is a scheduling point; under the GIL nothing else lets threads of this code base interact), "
             "CPython 3.12, tmpfs scratch. The sequential specification is the implementation itself run without preemption, so "
             "defects already present sequentially are left to C03-C06/C11. Held = on the schedules counted in the evidence file.")
CHECKS.update({
    "C07": ("exploration", "conc", "runtime monitor: linearizability oracle over scheduler-controlled interleavings of the real code (preemption-bounded DFS at file-system/lock granularity, random/PCT/focus schedules at statement granularity via sys.monitoring, free-running threads + Wing-Gong in the thorough tier)",
            "Every pair (and sampled triples) of object calls sharing a pid/cid from 5 start states is executed under ALL schedules with <=1 (quick) / <=2 (thorough) preemptions at file-system-call and lock-operation granularity; each observed (outcomes, final state) must match a sequential order. Known non-linearizable mechanisms are listed in known_findings.json.",
            "4/C07", CONC_NOTE),
    "C08": ("exploration", "conc", "runtime monitor: state-based deadlock / leaked-lock detector inside the scheduler + follow-up calls, over controlled schedules (file-system/lock and statement granularity) and injected I/O faults",
            "The scheduler owns every blocking primitive, so 'unfinished thread and none runnable' is observed, not timed out; locked-identifier lists must be empty at quiescence and follow-up calls must complete, after every explored schedule and after every injected fault.",
            "4/C08", CONC_NOTE),
    "C12": ("exploration", "conc", "runtime monitor: linearizability oracle (incl. reader bytes) over scheduler-controlled interleavings of metadata calls (preemption-bounded DFS + statement-level random/focus schedules)",
            "All pairs / sampled triples of store/retrieve/delete_metadata and delete_object on one pid from 4 start states under all schedules with <=1/2 preemptions; the reader is a real client that reads in two chunks with a scheduling point in between.",
            "4/C12", CONC_NOTE),
})

FAULT_NOTE = ("Trusted: the probe (run-time interposition on os.*, open, fcntl.flock incl. calls made inside shutil/tempfile/pathlib; "
              "every engine reports 'inconclusive' when a call that must touch the disk produced no intercepted operation), "
              "CPython 3.12, tmpfs scratch. Crash = process death with the page cache intact (power loss, fsync ordering, NFS "
              "are out of reach of any in-process monitor). Sites are enumerated completely for the listed calls and start states only.")
CHECKS.update({
    "C09": ("fault_enumeration", "fault", "runtime monitor: observer reading every permanent file after EVERY file-system operation of a writer (single calls and scheduler-controlled concurrent writers), staging-file ownership monitor, free-running reader thread (thorough)",
            "Complete enumeration of the operation boundaries of 30 (start state, call) cases plus observed concurrent schedules; at each boundary every permanent object / metadata / pid-ref file is read and checked (digest == name, one supplied version, one complete cid, presence changes at most once).",
            "4/C09", FAULT_NOTE),
    "C10": ("fault_enumeration", "fault", "runtime monitor: fork + os._exit() before each mutating operation in turn (and inside descriptor-level writes, half written), then a fresh instance inspects the store, recovers the interrupted pid and runs a second delete / store round",
            "Complete enumeration of crash points (every mutating operation incl. buffer-flush and flush-before-truncate points) of 29 (start state, call) cases x 5 identifier / configuration variants (thorough); bystanders, interrupted pid, the delete+store recovery and a second round of it are checked on a fresh instance.",
            "4/C10", FAULT_NOTE),
    "C13": ("fault_enumeration", "fault", "runtime monitor: OSError injected at each fault site in turn (EIO/ENOSPC/EACCES, one-off and persistent per operation class; a staged file removed just before its publication), post-state diffed against the fault-free run, retry executed; probe audited against strace on every run",
            "Complete enumeration of fault sites x 3 errnos x 2 persistence modes of 23 (start state, call) cases; outcome vs effect, unbound-and-retryable pid, previous metadata version, bystanders.",
            "4/C13", FAULT_NOTE),
})

CHECKS.update({
    "C16": ("exploration", "conc", "runtime monitor: (a) differential run threading vs multiprocessing mode, (b) linearizability oracle over scheduler-controlled interleavings of the *_mp code paths, (c) Wing-Gong history checker over real forked worker processes, (d) fault-path equivalence between the modes, (e) pause-and-race: a forked process performs its call inside each file-operation window of the parent's call, outcomes and final state compared with the sequential orders",
            "Mode equivalence is checked after every call of random sequences; the duplicated *_mp synchronisation code is explored under the cooperative scheduler with the C07/C12/C08 oracles; real forked workers contend on shared pids/cids and their recorded histories are checked for linearizability, exit status, hangs and leftover locks. Cross-process interleavings are provoked (micro-delays), not controlled.",
            "4/C16", CONC_NOTE + " Part (b) replaces multiprocessing conditions/manager lists by scheduler-owned ones; part (c) uses the real ones."),
})

CHECKS.update({
    "C18": ("exploration", "seq", "runtime monitor: probe trace assertion (every creating operation inside the store root), sandbox snapshot and model comparison of bystander identifiers after every step, over adversarial identifier tuples",
            "Adversarial pid / format tuples (relatives: prefix, suffix, case, +NUL; path-like; 5000 chars) run through a store/tag/metadata/delete script; after every step the untouched identifiers are compared with the model, the probe trace is checked for containment and the remaining files for hash-only locations.",
            "4/C18", SEQ_NOTE),
})

NOT_YET = {}


def main():
    props = [json.loads(l) for l in open(os.path.join(HERE, "properties.jsonl"))]
    ids = [p["id"] for p in props]
    checks = []
    for pid in ids:
        if pid not in CHECKS:
            continue
        cat, engine, tech, text, ref, note = CHECKS[pid]
        checks.append({
            "property_id": pid,
            "quick_cmd": f"VERIF_TIER=quick ./check {pid}",
            "thorough_cmd": f"VERIF_TIER=thorough ./check {pid}",
            "evidence_file": f"/verif/evidence/{pid}.json",
            "replay_cmd_template": f"./check {pid} --replay {{path}}",
            "engine": engine,
            "level_claimed": {"category": cat, "text": text, "design_ref": "DESIGN.md section " + ref},
            "level_note": note,
            "technique": tech,
        })
    na = [{"property_id": pid, "reason": NOT_YET.get(pid, "check not built yet in this round (planned in DESIGN.md section 4); not claimed until its monitor exists and has been calibrated")}
          for pid in ids if pid not in CHECKS]
    man = {
        "version": 1,
        "setup_cmd": "cd /verif && /venv/bin/python -m compileall -q hsverif && /venv/bin/python -c \"import sys; sys.path.insert(0,'/verif'); from hsverif.common import load_repo; load_repo(); print('hsverif ready')\"",
        "hooks": {
            "guard": "HASHSTORE_VERIF",
            "enable": "none needed: all instrumentation is applied at run time from the harness process (module/instance attribute interposition); /repo carries no hook code. The harness sets HASHSTORE_VERIF=1 in its own processes for the record.",
            "baseline_off_cmd": "cd /repo && /venv/bin/python -m pytest -ra -q -p no:cacheprovider --timeout=900 --continue-on-collection-errors",
            "source_commits": [],
            "add_only": True,
        },
        "engines": [
            {"name": "seq", "path": "/verif/hsverif/seqengine.py", "serves_properties": [c for c in CHECKS if CHECKS[c][1] == "seq"],
             "kind_free_text": "sequential differential monitor: real API calls, directory abstraction vs reference model after every call"},
            {"name": "config", "path": "/verif/hsverif/props/", "serves_properties": [c for c in CHECKS if CHECKS[c][1] == "config"],
             "kind_free_text": "snapshot / layout monitors around constructor and argument-validation paths"},
            {"name": "conc", "path": "/verif/hsverif/concengine.py", "serves_properties": [c for c in CHECKS if CHECKS[c][1] == "conc"],
             "kind_free_text": "cooperative scheduler over real threads running the real code; probe = run-time interposition on os/open/fcntl and the store's condition variables"},
            {"name": "fault", "path": "/verif/hsverif/faultengine.py", "serves_properties": [c for c in CHECKS if CHECKS[c][1] == "fault"] + ["C08"],
             "kind_free_text": "fault injection, fork-and-kill crash points and boundary observation over single API calls, all through the probe"},
            {"name": "cli", "path": "/verif/hsverif/props/C20.py", "serves_properties": [c for c in CHECKS if CHECKS[c][1] == "cli"],
             "kind_free_text": "differential monitor: client entry point vs API"},
        ],
        "checks": checks,
        "not_applicable": na,
        "notes": "Technique family: runtime monitoring. See DESIGN.md. Known findings: /verif/known_findings.json.",
    }
    path = os.path.join(HERE, "MANIFEST.json")
    with open(path, "w") as f:
        json.dump(man, f, indent=1)
        f.write("\n")
    try:
        import jsonschema
        jsonschema.validate(man, json.load(open("/root/.vp/MANIFEST.schema.json")))
        print("MANIFEST.json valid;", len(checks), "checks,", len(na), "not claimed")
    except ImportError:
        print("jsonschema not available; wrote without validation")


if __name__ == "__main__":
    main()
