#!/bin/sh
# Re-runs, for every filed seeded change, the check of the property it targets (current /verif code) and records
# the result in its meta.json ("own_check"). usage: [SEEDED_PROP=C10] [SEEDED_GLOB=W1*] tools/recheck_seeded.sh [parallelism]
P="${1:-4}"
ls -d /verif/seeded/${SEEDED_PROP:-C??}-${SEEDED_GLOB:-?} | xargs -P "$P" -I{} sh -c '
  d="{}"; b=$(basename "$d"); prop=${b%%-*}
  WT=/tmp/rc-$b-$$
  git -C /repo worktree add --detach "$WT" HEAD -q 2>/dev/null
  git -C "$WT" apply "$d/patch.diff" || { echo "$b PATCH-FAILS"; git -C /repo worktree remove --force "$WT"; exit 0; }
  OUT=/tmp/rcout-$b; rm -rf "$OUT"; mkdir -p "$OUT"
  HSVERIF_SRC="$WT/src" HSVERIF_EVIDENCE_DIR="$OUT" HSVERIF_REPLAY_DIR="$OUT" VERIF_TIER=${VERIF_TIER:-quick} /verif/check "$prop" > "$OUT/log" 2>&1
  rc=$?
  git -C /repo worktree remove --force "$WT"
  sig=$(grep -m1 signature "$OUT/log" | cut -c1-300)
  /venv/bin/python - "$d" "$prop" "$rc" "$sig" <<PY
import json, sys
d, prop, rc, sig = sys.argv[1:5]
m = json.load(open(d + "/meta.json"))
if m.get("valid_against"):
    print(d.split("/")[-1], "is valid against", m["valid_against"], "- own-check record kept, HEAD result:", rc)
    sys.exit(0)
m["own_check"] = {"check": prop, "tier": "quick", "exit": int(rc), "first_signature": sig.strip()}
if int(rc) == 1 and prop not in m.get("caught_by", []):
    m["caught_by"] = sorted(set(m.get("caught_by", [])) | {prop})
    m.setdefault("history", []).append("not reported by " + prop + " when first evaluated; the check was strengthened afterwards (see DESIGN.md 9.6)")
json.dump(m, open(d + "/meta.json", "w"), indent=1)
print(d.split("/")[-1], "own check", prop, "exit", rc)
PY
'
