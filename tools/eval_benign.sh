#!/bin/sh
# usage: tools/eval_benign.sh <patch.diff> <name> [checks...]
# A behaviour-preserving change must leave every check silent: prints one line per check that is NOT exit 0.
PATCH="$1"; NAME="$2"; shift 2
CHECKS="${*:-C01 C02 C03 C04 C05 C06 C07 C08 C09 C10 C11 C12 C13 C14 C15 C16 C17 C18 C19 C20}"
WT="/tmp/bn-$NAME-$$"; OUT="/tmp/bnout-$NAME"; rm -rf "$OUT"; mkdir -p "$OUT"
git -C /repo worktree add --detach "$WT" HEAD -q || exit 2
git -C "$WT" apply "$PATCH" || { echo "$NAME PATCH-FAILS"; git -C /repo worktree remove --force "$WT"; exit 2; }
suite=$(cd "$WT" && PYTHONPATH="$WT/src" timeout 600 /venv/bin/python -m pytest -q -p no:cacheprovider 2>&1 | tail -1)
bad=""
for c in $CHECKS; do
  HSVERIF_SRC="$WT/src" HSVERIF_EVIDENCE_DIR="$OUT" HSVERIF_REPLAY_DIR="$OUT" VERIF_TIER="${VERIF_TIER:-quick}" timeout 3600 /verif/check "$c" > "$OUT/$c.log" 2>&1
  rc=$?
  [ "$rc" != "0" ] && bad="$bad $c=$rc"
done
git -C /repo worktree remove --force "$WT"
echo "$NAME suite='$suite' alarms:${bad:- none}"
