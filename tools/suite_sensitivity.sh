#!/bin/sh
# usage: tools/suite_sensitivity.sh <patch.diff>...   - which changes do the suite-under-monitors observers see on their own?
for P in "$@"; do
  WT="/tmp/ss-$$"; git -C /repo worktree add --detach "$WT" HEAD -q || exit 2
  if git -C "$WT" apply "$P" 2>/dev/null; then
    out="/dev/shm/ss-$$.json"; rm -f "$out"
    (cd "$WT" && HSVERIF_SUITEMON_OUT="$out" PYTHONDONTWRITEBYTECODE=1 PYTHONPATH="/verif:$WT/src" timeout 300 /venv/bin/python -m pytest -q -p no:cacheprovider -p hsverif.suitemon tests >/dev/null 2>&1)
    if [ -f "$out" ]; then /venv/bin/python -c "
import json,sys,collections
d=json.load(open('$out')); c=collections.Counter(v['monitor'] for v in d['violations'])
print('$P', 'pytest_exit=%s'%d.get('pytest_exit'), dict(c) or 'silent')"; else echo "$P no-report"; fi
    rm -f "$out"
  else echo "$P patch-fails"; fi
  git -C /repo worktree remove --force "$WT"
done
