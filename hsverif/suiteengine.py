"""Runs the repository's own test suite as a workload under the suitemon monitors (see suitemon.py) and turns what
the monitors recorded into counters and violations of the calling property."""

import json
import os
import subprocess
import sys

from .common import SRC, new_scratch, rmtree

# monitor -> the property whose statement it decides
OWNER = {
    "read-only-call-changed-the-store": "C17",
    "rejected-call-changed-the-store": "C17",
    "invariant-broken-by-call": "C05",
    "metadata-not-at-address": "C11",
    "rejected-rebind-changed-references-or-objects": "C03",
    "referenced-object-removed-or-altered": "C04",
    "valid-object-rejected": "C06",
    "invalid-object-accepted": "C06",
    "invalid-object-left-pid-bound": "C06",
}
COUNTER_OF = {
    "C17": ("read-only-unchanged", "rejected-unchanged"),
    "C05": ("invariant-preserved",),
    "C11": ("metadata-at-address",),
    "C01": ("store-result-true",),
    "C02": ("store-result-true",),
    "C03": ("rebind-rejected-unchanged",),
    "C04": ("referenced-objects-intact",),
    "C06": ("validation-verdict",),
}


def _owner(v):
    m = v["monitor"]
    if m == "store-result-untrue":
        d = v.get("detail", {})
        owners = set()
        if any(k in d for k in ("cid", "obj_size", "object_file")):
            owners.add("C01")
        if any(k in d for k in ("false_digests", "missing_default_digests")):
            owners.add("C02")
        return owners
    return {OWNER.get(m)}


def run(res, prop_id, timeout=420):
    """Adds to `res` (a ShardResult). The part is supplementary: a suite that cannot be run is a note, not a verdict;
    a suite that ran while the monitors judged nothing is inconclusive (the wrappers were bypassed)."""
    repo_root = os.path.dirname(os.path.abspath(SRC))
    tests = os.path.join(repo_root, "tests")
    if not os.path.isdir(tests):
        res.notes.append("suite-under-monitors part skipped: no tests directory beside the sources")
        return
    scratch = new_scratch("suite")
    out = os.path.join(scratch, "suitemon.json")
    env = dict(os.environ)
    env.update({"HSVERIF_SUITEMON_OUT": out, "PYTHONDONTWRITEBYTECODE": "1",
                "PYTHONPATH": os.path.dirname(os.path.dirname(os.path.abspath(__file__))) + os.pathsep + os.path.abspath(SRC),
                "HSVERIF_SRC_EXPECT": os.path.abspath(SRC), "TMPDIR": scratch})
    env.pop("USE_MULTIPROCESSING", None)
    try:
        try:
            p = subprocess.run([sys.executable, "-m", "pytest", "-q", "-x", "-p", "no:cacheprovider", "-p", "hsverif.suitemon",
                                "--basetemp", os.path.join(scratch, "bt"), tests],
                               cwd=repo_root, env=env, stdout=subprocess.PIPE, stderr=subprocess.STDOUT, timeout=timeout)
            tail = p.stdout.decode("utf-8", "replace").strip().splitlines()[-1:] or [""]
        except subprocess.TimeoutExpired:
            res.notes.append(f"suite-under-monitors part: the repository's suite did not finish within {timeout}s (no verdict from this part)")
            return
        if not os.path.exists(out):
            res.notes.append("suite-under-monitors part: pytest wrote no monitor report (" + tail[0][:200] + ")")
            return
        with open(out, encoding="utf-8") as f:
            rep = json.load(f)
    finally:
        rmtree(scratch)
    if rep.get("imported_from") and not rep["imported_from"].startswith(os.path.abspath(SRC)):
        res.inconclusive.append(f"suite-under-monitors part imported hashstore from {rep['imported_from']}")
        return
    judged = sum(rep["judged"].get(c, 0) for c in COUNTER_OF[prop_id])
    res.count("suite_calls_judged", judged)
    res.count("suite_tests_with_judged_calls", rep.get("tests_with_judged_calls", 0))
    res.count("suite_calls_not_judged_other_threads_or_nested", sum(v for k, v in rep["skipped"].items() if not k.startswith("reason:")))
    res.evaluations += judged
    if rep.get("pytest_exit") != 0:
        res.notes.append(f"suite-under-monitors part: the repository's suite itself reported failures ({tail[0][:120]}); "
                         "the monitors' observations up to the first failure are still used")
    elif judged == 0:
        res.inconclusive.append("suite-under-monitors part: the suite passed but the monitors judged no call "
                                "(the wrappers on the public methods were bypassed)")
    for v in rep["violations"]:
        if prop_id in _owner(v):
            sig = {"engine": "suite-under-monitors", "monitor": v["monitor"], "method": v["method"],
                   "detail_keys": sorted(v.get("detail", {}))}
            res.violation(sig, {"engine": "suite", "test": v["test"], "monitor": v["monitor"], "method": v["method"],
                                "detail": v.get("detail")})
        else:
            for o in _owner(v):
                res.foreign[f"suite:{v['monitor']}"] = res.foreign.get(f"suite:{v['monitor']}", 0) + 1
    res.sample({"engine": "suite-under-monitors", "judged": {c: rep["judged"].get(c, 0) for c in COUNTER_OF[prop_id]},
                "tests": rep.get("tests"), "pytest": tail[0][:100]})


def replay(witness, prop_id):
    """A suite witness names the test: exactly that test is run again under the monitors."""
    from .runner import ShardResult
    res = ShardResult()
    repo_root = os.path.dirname(os.path.abspath(SRC))
    scratch = new_scratch("suiter")
    out = os.path.join(scratch, "suitemon.json")
    env = dict(os.environ)
    env.update({"HSVERIF_SUITEMON_OUT": out, "PYTHONDONTWRITEBYTECODE": "1", "TMPDIR": scratch,
                "PYTHONPATH": os.path.dirname(os.path.dirname(os.path.abspath(__file__))) + os.pathsep + os.path.abspath(SRC)})
    try:
        subprocess.run([sys.executable, "-m", "pytest", "-q", "-p", "no:cacheprovider", "-p", "hsverif.suitemon",
                        "--basetemp", os.path.join(scratch, "bt"), str(witness.get("test"))],
                       cwd=repo_root, env=env, stdout=subprocess.PIPE, stderr=subprocess.STDOUT, timeout=300)
        if not os.path.exists(out):
            res.inconclusive.append("the named test could not be run again under the monitors")
            return res
        with open(out, encoding="utf-8") as f:
            rep = json.load(f)
    except subprocess.TimeoutExpired:
        res.inconclusive.append("the named test did not finish within 300 s")
        return res
    finally:
        rmtree(scratch)
    res.evaluations = sum(rep["judged"].get(c, 0) for c in COUNTER_OF.get(prop_id, ()))
    for v in rep["violations"]:
        if v["monitor"] == witness.get("monitor") and prop_id in _owner(v):
            print("monitor fired again:", v)
            res.violation({"engine": "suite-under-monitors", "monitor": v["monitor"], "method": v["method"],
                           "detail_keys": sorted(v.get("detail", {}))},
                          {"engine": "suite", "test": v["test"], "monitor": v["monitor"], "method": v["method"], "detail": v.get("detail")})
    return res
