"""Cooperative scheduler for controlled-concurrency runs (DESIGN.md 3.4).

Worker threads run the real code; every shared file-system operation and every operation on the
store's condition variables is a yield point at which the scheduler decides who runs next. Exactly
one worker runs at any time, so a schedule is a list of thread indices and is replayable.
"""

import fcntl
import os
import threading
import time

from . import probe
from .common import Inconclusive


class Deadlock(Exception):
    pass


class _Worker:
    def __init__(self, idx, fn):
        self.idx = idx
        self.fn = fn
        self.go = threading.Semaphore(0)
        self.state = "new"           # new | ready | blocked | done
        self.blocked_on = None       # (label, predicate)
        self.result = None
        self.error = None
        self.pending = None          # description of the operation it is about to perform
        self.thread = None
        self.steps = 0
        self.sleeps = 0


class Scheduler:
    """Runs n callables under a chooser.

    chooser(sched, runnable:list[int], current:int|None) -> int   picks the next thread.
    """

    WATCHDOG_S = 20

    def __init__(self, fns, chooser, root, is_yield_op=None, observer=None, pre_hook=None):
        self.workers = [_Worker(i, f) for i, f in enumerate(fns)]
        self.chooser = chooser
        self.root = os.path.abspath(str(root))
        self.ctl_sem = threading.Semaphore(0)
        self.current = None
        self.trace = []              # chosen thread index per scheduling step
        self.points = []             # per step: (runnable tuple, chosen, current_before, current_runnable)
        self.events = []             # (thread, description) per executed yield point
        self.flocks = {}             # inode -> thread idx
        self.is_yield_op = is_yield_op or (lambda op: probe.op_is_shared(self.root, op))
        self.observer = observer     # called as observer(sched, worker_idx, op) after each shared op
        self.pre_hook = pre_hook     # called as pre_hook(op) right before a shared op executes (after the yield)
        self.deadlock = None
        self.hang = None
        self.yield_points = 0
        self.line_points = 0
        self.aborting = False

    # ------------------------------------------------------------------ worker side
    def _me(self):
        return getattr(_cur, "worker", None)

    def yield_point(self, desc):
        """Called by a worker before a visible operation: hand control back and wait for the baton."""
        w = self._me()
        if w is None or self.aborting:
            return
        w.pending = desc
        w.state = "ready"
        self.yield_points += 1
        self.ctl_sem.release()
        w.go.acquire()
        if self.aborting:
            raise _Abort()
        self.events.append((w.idx, desc))

    def block_until(self, label, predicate):
        """Called by a worker that cannot proceed until predicate() holds."""
        w = self._me()
        while not predicate():
            if self.aborting:
                raise _Abort()
            w.state = "blocked"
            w.blocked_on = (label, predicate)
            w.pending = "blocked:" + label
            self.ctl_sem.release()
            w.go.acquire()
            if self.aborting:
                raise _Abort()
        w.blocked_on = None
        w.state = "ready"

    # controller interface used by the probe
    def wants_proxy(self, op):
        return probe.is_shared_store_path(self.root, op.path)

    def pre(self, op):
        if self.is_yield_op(op):
            self.yield_point(op.describe(self.root))
        if self.pre_hook is not None:
            self.pre_hook(op)

    def on_sleep(self, seconds):
        """A sleeping thread (polling loop) gives the processor away: a free switching point, no real delay."""
        w = self._me()
        if w is None:
            return probe.real("time.sleep")(seconds)
        w.sleeps += 1
        if w.sleeps > 20000:
            raise Deadlock("a thread polled 20000 times without making progress")
        self.yield_point("sleep")

    def post(self, op, error):
        if op.kind == "close-write" and op.fd is not None:
            for ino, (owner, fd) in list(self.flocks.items()):
                w = self._me()
                if w is not None and owner == w.idx and fd == op.fd:
                    del self.flocks[ino]
        if self.observer is not None and probe.op_is_shared(self.root, op):
            w = self._me()
            self.observer(self, w.idx if w else None, op)

    def flock(self, op, real, fd, operation):
        w = self._me()
        ino = os.fstat(fd).st_ino
        if operation & fcntl.LOCK_UN:
            self.flocks.pop(ino, None)
            return real(fd, operation)
        while True:
            holder = self.flocks.get(ino)
            if holder is None or holder[0] == w.idx:
                try:
                    real(fd, operation | fcntl.LOCK_NB)
                    self.flocks[ino] = (w.idx, fd)
                    return None
                except BlockingIOError:
                    pass
            self.block_until(f"flock:{op.rel(self.root)}",
                             lambda: self.flocks.get(ino) is None)

    # ------------------------------------------------------------------ controller side
    def _thread_main(self, w):
        _cur.worker = w
        probe.set_controller(self)
        try:
            w.go.acquire()
            if self.aborting:
                return
            w.result = w.fn()
        except _Abort:
            pass
        except BaseException as err:  # noqa - reported to the engine
            w.error = err
        finally:
            probe.clear_controller()
            w.state = "done"
            self.ctl_sem.release()

    def _runnable(self):
        out = []
        for w in self.workers:
            if w.state in ("new", "ready"):
                out.append(w.idx)
            elif w.state == "blocked":
                try:
                    if w.blocked_on[1]():
                        out.append(w.idx)
                except Exception:  # noqa
                    pass
        return out

    def run(self):
        for w in self.workers:
            w.thread = threading.Thread(target=self._thread_main, args=(w,), daemon=True)
            w.thread.start()
        try:
            while any(w.state != "done" for w in self.workers):
                runnable = self._runnable()
                if not runnable:
                    self.deadlock = {w.idx: (w.blocked_on[0] if w.blocked_on else w.state)
                                     for w in self.workers if w.state != "done"}
                    break
                cur_ok = self.current in runnable and self.workers[self.current].pending != "sleep"
                choice = self.chooser(self, runnable, self.current) if len(runnable) > 1 else runnable[0]
                if choice not in runnable:
                    raise Inconclusive(f"chooser picked {choice} outside runnable {runnable}")
                sleeping = self.current is not None and self.workers[self.current].pending == "sleep"
                self.points.append((tuple(runnable), choice, self.current, cur_ok, sleeping))
                self.trace.append(choice)
                self.current = choice
                w = self.workers[choice]
                w.steps += 1
                w.go.release()
                if not self.ctl_sem.acquire(timeout=self.WATCHDOG_S):
                    self.hang = {"thread": choice, "pending": w.pending}
                    break
        finally:
            if self.deadlock or self.hang:
                self.aborting = True
                for w in self.workers:
                    if w.state != "done":
                        w.go.release()
                for w in self.workers:
                    w.thread.join(timeout=2)
        return self


class _Abort(BaseException):
    pass


_cur = threading.local()


# ---------------------------------------------------------------------- scheduler-owned conditions

class SchedMutex:
    def __init__(self, name):
        self.name = name
        self.owner = None


class SchedCondition:
    """Drop-in for threading.Condition / multiprocessing.Condition used through
    `with cond:`, `cond.wait()`, `cond.notify()`, `cond.notify_all()`."""

    def __init__(self, sched_ref, name, mutex):
        self._sched_ref = sched_ref    # callable returning the active Scheduler (or None)
        self.name = name
        self.mutex = mutex
        self.waiters = []              # FIFO of [worker_idx, notified flag]
        self.stats = {"acquire": 0, "wait": 0, "notify": 0, "wasted_notify": 0}

    def _sched(self):
        return self._sched_ref()

    def acquire(self):
        s = self._sched()
        self.stats["acquire"] += 1
        if s is None or s._me() is None:
            # uncontrolled (e.g. harness follow-up calls): single-threaded use only
            self.mutex.owner = "harness"
            return True
        s.yield_point(f"acquire:{self.name}")
        me = s._me().idx
        s.block_until(f"mutex:{self.mutex.name}", lambda: self.mutex.owner is None)
        self.mutex.owner = me
        return True

    def release(self):
        self.mutex.owner = None

    __enter__ = acquire

    def __exit__(self, *a):
        self.release()
        return False

    def _require_owner(self, what):
        """Same contract as the real primitives: threading.Condition raises RuntimeError and
        multiprocessing.Condition raises AssertionError when wait/notify is called by a caller that does not
        hold the condition's own lock."""
        s = self._sched()
        me = s._me().idx if (s is not None and s._me() is not None) else "harness"
        if self.mutex.owner != me:
            if self.name.endswith("_mp"):
                raise AssertionError(f"must acquire() condition before using {what}")
            raise RuntimeError(f"cannot {what} on un-acquired lock")

    def wait(self, timeout=None):
        s = self._sched()
        self.stats["wait"] += 1
        self._require_owner("wait")
        if s is None or s._me() is None:
            raise Deadlock(f"wait() on {self.name} outside a controlled run would block forever")
        me = s._me().idx
        entry = [me, False]
        self.waiters.append(entry)
        self.mutex.owner = None
        if timeout is not None:
            # a timed wait may expire at any moment a loaded machine chooses: the thread gives the processor away once
            # (free switching point, like sleep) and, unless it was notified meanwhile, returns False
            self.stats["timed_wait"] = self.stats.get("timed_wait", 0) + 1
            s.on_sleep(0)
            if not entry[1]:
                self.waiters = [e for e in self.waiters if e is not entry]
            s.block_until(f"mutex:{self.mutex.name}", lambda: self.mutex.owner is None)
            self.mutex.owner = me
            return entry[1]
        s.block_until(f"wait:{self.name}", lambda: entry[1])
        s.block_until(f"mutex:{self.mutex.name}", lambda: self.mutex.owner is None)
        self.mutex.owner = me
        return True

    def notify(self, n=1):
        self.stats["notify"] += 1
        self._require_owner("notify")
        woke = 0
        for entry in self.waiters:
            if woke >= n:
                break
            if not entry[1]:
                entry[1] = True
                woke += 1
        self.waiters = [e for e in self.waiters if not e[1]]
        if woke == 0:
            self.stats["wasted_notify"] += 1

    def notify_all(self):
        self.notify(n=len(self.waiters) or 1)

    def wait_for(self, predicate, timeout=None):
        result = predicate()
        expirations = 0
        while not result:
            if timeout is not None and expirations >= 2:
                break               # the overall timeout has run out
            if not self.wait(timeout) and timeout is not None:
                expirations += 1
            result = predicate()
        return result


class SchedLock:
    """Drop-in for threading.Lock / RLock / multiprocessing.Lock created by the store while the scheduler owns its
    primitives. Shares its SchedMutex with every condition built on it."""

    def __init__(self, sched_ref, mutex, reentrant=False):
        self._sched_ref = sched_ref
        self.mutex = mutex
        self.name = mutex.name
        self.reentrant = reentrant
        self.depth = 0

    def _me(self):
        s = self._sched_ref()
        return (s, s._me().idx) if (s is not None and s._me() is not None) else (None, "harness")

    def acquire(self, blocking=True, timeout=-1):
        s, me = self._me()
        if self.reentrant and self.mutex.owner == me:
            self.depth += 1
            return True
        if s is None:
            if self.mutex.owner is not None and not blocking:
                return False
            if self.mutex.owner is not None:
                # nobody else runs outside a controlled run: a lock a finished call still holds blocks for ever
                raise Deadlock(f"acquire() of {self.mutex.name}, still held by a call that has returned")
            self.mutex.owner = me
            self.depth = 1
            return True
        s.yield_point(f"acquire:{self.mutex.name}")
        if not blocking and self.mutex.owner is not None:
            return False
        s.block_until(f"mutex:{self.mutex.name}", lambda: self.mutex.owner is None)
        self.mutex.owner = me
        self.depth = 1
        return True

    def release(self):
        if self.reentrant and self.depth > 1:
            self.depth -= 1
            return
        self.depth = 0
        self.mutex.owner = None

    def locked(self):
        return self.mutex.owner is not None

    __enter__ = acquire

    def __exit__(self, *a):
        self.release()
        return False


class _ModProxy:
    """Stands in for the `threading` / `multiprocessing` module INSIDE the module under test only, so that every
    primitive the store creates is scheduler-owned while nothing else in the process is affected."""

    def __init__(self, real, overrides):
        self.__dict__["_real"] = real
        self.__dict__["_over"] = overrides

    def __getattr__(self, name):
        over = self.__dict__["_over"]
        if name in over:
            return over[name]
        return getattr(self.__dict__["_real"], name)


class _LocalManagerForSched:
    def list(self, *a):
        return list(*a)

    def dict(self, *a, **k):
        return dict(*a, **k)

    def shutdown(self):
        pass


class owned_primitives:
    """Context manager around the construction of a store: Lock / RLock / Condition (threading and multiprocessing)
    and multiprocessing.Manager created by filehashstore.py become scheduler-owned objects."""

    def __init__(self, fhs_module, sched_ref):
        self.fhs = fhs_module
        self.sched_ref = sched_ref
        self.created = []
        self.n = 0

    def _mutex(self, kind):
        self.n += 1
        return SchedMutex(f"{kind}#{self.n}")

    def _lock(self, suffix, reentrant=False):
        def make(*a, **k):
            lk = SchedLock(self.sched_ref, self._mutex("lock" + suffix), reentrant=reentrant)
            self.created.append(lk)
            return lk
        return make

    def _cond(self, suffix):
        def make(lock=None):
            if isinstance(lock, SchedLock):
                mutex = lock.mutex
            else:
                mutex = self._mutex("lock" + suffix)
            c = SchedCondition(self.sched_ref, "condition" + suffix, mutex)
            self.created.append(c)
            return c
        return make

    def __enter__(self):
        import multiprocessing
        self.saved = (getattr(self.fhs, "threading", None), getattr(self.fhs, "multiprocessing", None))
        if self.saved[0] is not None:
            self.fhs.threading = _ModProxy(threading, {"Lock": self._lock("_th"), "RLock": self._lock("_th", True),
                                                       "Condition": self._cond("_th")})
        if self.saved[1] is not None:
            self.fhs.multiprocessing = _ModProxy(multiprocessing, {
                "Lock": self._lock("_mp"), "RLock": self._lock("_mp", True), "Condition": self._cond("_mp"),
                "Manager": _LocalManagerForSched})
        return self

    def __exit__(self, *a):
        if self.saved[0] is not None:
            self.fhs.threading = self.saved[0]
        if self.saved[1] is not None:
            self.fhs.multiprocessing = self.saved[1]
        return False


def adopt_store(store, owner):
    """After construction under owned_primitives: name the scheduler-owned objects after the attributes that hold
    them - on the store itself or on a helper object of the hashstore package that the store holds (a lock table,
    say). Returns {name: SchedCondition} for every condition created during construction."""
    names = {}

    def visit(obj, prefix, depth):
        try:
            items = list(vars(obj).items())
        except TypeError:
            return
        for attr, val in items:
            if isinstance(val, (SchedLock, SchedCondition)):
                names.setdefault(id(val), prefix + attr)
            elif depth < 2 and type(val).__module__.split(".")[0] == "hashstore" and not isinstance(val, type):
                visit(val, prefix + attr + ".", depth + 1)
    visit(store, "", 0)
    conds = {}
    for prim in owner.created:
        name = names.get(id(prim))
        if isinstance(prim, SchedLock) and name:
            prim.mutex.name = name
            prim.name = name
    for k, prim in enumerate(owner.created):
        if isinstance(prim, SchedCondition):
            name = names.get(id(prim)) or f"{prim.name}#{k}"
            prim.name = name
            conds[name] = prim
    return conds


def locked_lists_generic(store, suffix=None):
    """Every list-like instance attribute whose name says it holds locked identifiers (plain lists or
    multiprocessing manager proxies)."""
    out = {}
    for attr, val in vars(store).items():
        if "locked" not in attr or (suffix and not attr.endswith(suffix)):
            continue
        if isinstance(val, (str, bytes, dict)) or not (hasattr(val, "__iter__") or
                                                       (hasattr(val, "__getitem__") and hasattr(val, "__len__"))):
            continue
        try:
            out[attr] = list(val)
        except Exception:  # noqa
            continue
    return out


def store_locks(store, suffix=None):
    """Instance attributes that are plain locks (acquire/release, no wait)."""
    out = {}
    for attr, val in vars(store).items():
        if suffix and not attr.endswith(suffix):
            continue
        if hasattr(val, "acquire") and hasattr(val, "release") and not hasattr(val, "wait") and not hasattr(val, "notify"):
            out[attr] = val
    return out


SYNC_ATTRS = {
    # condition attr -> (lock attr its Condition was built on, locked-list attr)
    "th": [("object_pid_condition_th", "object_pid_lock_th", "object_locked_pids_th"),
           ("object_cid_condition_th", "object_cid_lock_th", "object_locked_cids_th"),
           ("metadata_condition_th", "metadata_lock_th", "metadata_locked_docs_th"),
           ("reference_pid_condition_th", "metadata_lock_th", "reference_locked_pids_th")],
    "mp": [("object_pid_condition_mp", "object_pid_lock_mp", "object_locked_pids_mp"),
           ("object_cid_condition_mp", "object_cid_lock_mp", "object_locked_cids_mp"),
           ("metadata_condition_mp", "metadata_lock_mp", "metadata_locked_docs_mp"),
           ("reference_pid_condition_mp", "reference_pid_lock_mp", "reference_locked_pids_mp")],
}


def instrument_store(store, sched_ref, mode="th", plain_lists=True):
    """Replace the store's condition objects with scheduler-owned ones. The mutex identity follows
    the lock each real Condition was built on (two conditions share metadata_lock_th)."""
    mutexes = {}
    conds = {}
    for cattr, lattr, listattr in SYNC_ATTRS[mode]:
        real = getattr(store, cattr)
        # identify the underlying lock object of the real condition
        under = getattr(real, "_lock", None)
        key = id(under) if under is not None else lattr
        if key not in mutexes:
            mutexes[key] = SchedMutex(lattr if under is None else _lock_name(store, under, lattr, mode))
        c = SchedCondition(sched_ref, cattr, mutexes[key])
        setattr(store, cattr, c)
        conds[cattr] = c
        if mode == "mp" and plain_lists:
            # manager-backed lists live in server processes; under the in-process scheduler the
            # duplicated *_mp code paths are what is exercised, the list becomes a plain list
            try:
                setattr(store, listattr, list(getattr(store, listattr)))
            except Exception:  # noqa
                setattr(store, listattr, [])
    return conds


def _lock_name(store, lock_obj, default, mode):
    for cattr, lattr, _l in SYNC_ATTRS[mode]:
        if getattr(store, lattr, None) is lock_obj:
            return lattr
    return default


def locked_lists(store, mode="th"):
    return {listattr: list(getattr(store, listattr)) for _c, _l, listattr in SYNC_ATTRS[mode] if hasattr(store, listattr)}


# ---------------------------------------------------------------------- choosers

class PrefixChooser:
    """Follow a fixed prefix of choices, then the default policy (keep running the current thread;
    when it cannot run take the lowest runnable)."""

    def __init__(self, prefix=()):
        self.prefix = list(prefix)
        self.i = 0

    def __call__(self, sched, runnable, current):
        step = len(sched.trace)
        if step < len(self.prefix) and self.prefix[step] in runnable:
            return self.prefix[step]
        if current in runnable and sched.workers[current].pending != "sleep":
            return current
        others = [t for t in runnable if t != current]
        # a thread parked in sleep() gave the processor away voluntarily: round-robin to the next one
        return min(others, key=lambda t: (t <= (current if current is not None else -1), t)) if others else runnable[0]


class OrderChooser:
    """Sequential execution in a given thread order (no preemption): defines the sequential spec."""

    def __init__(self, order):
        self.order = list(order)

    def __call__(self, sched, runnable, current):
        if current in runnable and not (sched.workers[current].pending == "sleep" and len(runnable) > 1):
            return current
        for t in self.order:
            if t in runnable and t != current:
                return t
        for t in self.order:
            if t in runnable:
                return t
        return runnable[0]


class RandomChooser:
    def __init__(self, rng, switch_p=0.3):
        self.rng = rng
        self.p = switch_p

    def __call__(self, sched, runnable, current):
        if current in runnable and self.rng.random() > self.p:
            return current
        return self.rng.choice(runnable)


class PCTChooser:
    """PCT: random priorities, d-1 priority change points over an estimated run length."""

    def __init__(self, rng, nthreads, depth, est_len):
        self.prio = list(range(depth, depth + nthreads))
        rng.shuffle(self.prio)
        self.change = sorted(rng.randrange(1, max(2, est_len)) for _ in range(depth - 1))
        self.low = depth - 1

    def __call__(self, sched, runnable, current):
        step = len(sched.trace)
        while self.change and step >= self.change[0]:
            self.change.pop(0)
            if current is not None:
                self.prio[current] = self.low
                self.low -= 1
        return max(runnable, key=lambda t: self.prio[t])


def dfs_prefixes(points, prefix_len, preemptions_used_at, bound):
    """Given the choice points of a finished run that followed a prefix of length prefix_len,
    yield new prefixes (each exactly one alternative choice beyond the prefix) within the
    preemption bound."""
    out = []
    used = 0
    for i, (runnable, chosen, current, cur_ok, sleeping) in enumerate(points):
        # no branching where the current thread sits in sleep(): it yields voluntarily and the round-robin
        # successor is the only sensible continuation (branching there would enumerate spin counts)
        if i >= prefix_len and len(runnable) > 1 and not sleeping:
            for alt in runnable:
                if alt == chosen:
                    continue
                cost = used + (1 if (cur_ok and alt != current) else 0)
                if cost <= bound:
                    out.append(i_prefix(points, i, alt))
        if cur_ok and chosen != current:
            used += 1
    return out


def i_prefix(points, i, alt):
    return [p[1] for p in points[:i]] + [alt]


def preemptions(points):
    return sum(1 for (_r, chosen, current, cur_ok, _s) in points if cur_ok and chosen != current)


# ---------------------------------------------------------------------- line-level yield points (thorough tiers)

class LineYield:
    """sys.monitoring LINE events inside the code under test become additional yield points of the controlled
    threads, so that a schedule can preempt between ANY two statements of filehashstore.py - not only at
    file-system calls and lock operations. This reaches races on in-memory state (a check-then-act on a locked
    list done outside its condition, an unprotected cache) that the default yield points cannot separate.
    Far too many points for systematic search: used with random / PCT choosers only."""

    TOOL = 4
    _codes = None
    _active = None

    @classmethod
    def _collect(cls):
        import types
        from .common import load_repo
        mod = load_repo()["fhs"]
        seen, out = set(), []

        def walk(code):
            if code in seen:
                return
            seen.add(code)
            out.append(code)
            for c in code.co_consts:
                if isinstance(c, types.CodeType):
                    walk(c)
        for obj in vars(mod).values():
            if isinstance(obj, type) and obj.__module__ == mod.__name__:
                for v in vars(obj).values():
                    f = getattr(v, "__func__", v)
                    if isinstance(f, types.FunctionType):
                        walk(f.__code__)
            elif isinstance(obj, types.FunctionType) and obj.__module__ == mod.__name__:
                walk(obj.__code__)
        cls._codes = out
        return out

    @classmethod
    def sync_codes(cls):
        """Code objects that touch the synchronisation state (any name mentioning a locked list, a condition or a
        lock): the only places where threads share in-memory state."""
        codes = cls._codes or cls._collect()
        out = []
        for c in codes:
            names = " ".join(c.co_names) + " " + " ".join(x for x in c.co_consts if isinstance(x, str))
            if "locked" in names or "condition" in names or "_lock" in names:
                out.append(c)
        return out

    @classmethod
    def enable(cls, scheduler, focus="all"):
        import sys
        mon = sys.monitoring
        codes = cls._codes or cls._collect()
        if focus == "sync":
            codes = cls.sync_codes()
            cls._sync_names = {c.co_name for c in codes}
        if mon.get_tool(cls.TOOL) is None:
            mon.use_tool_id(cls.TOOL, "hsverif-line-yield")
            mon.register_callback(cls.TOOL, mon.events.LINE, cls._on_line)
        cls._active = scheduler
        for c in codes:
            mon.set_local_events(cls.TOOL, c, mon.events.LINE)

    @classmethod
    def disable(cls):
        import sys
        mon = sys.monitoring
        cls._active = None
        if mon.get_tool(cls.TOOL) is not None:
            for c in cls._codes or ():
                mon.set_local_events(cls.TOOL, c, 0)

    @staticmethod
    def _on_line(code, line):
        s = LineYield._active
        if s is None or s.aborting:
            return
        w = getattr(_cur, "worker", None)
        if w is None or getattr(probe._tls, "busy", 0):
            return
        s.line_points += 1
        s.yield_point(f"line:{code.co_name}:{line}")


class FocusChooser:
    """Random chooser whose switching probability depends on where the running thread is about to go: high at
    statements of synchronisation code, moderate at file-system / lock operations, low elsewhere."""

    def __init__(self, rng, p_sync=0.3, p_fs=0.1, p_line=0.01):
        self.rng = rng
        self.p = (p_sync, p_fs, p_line)

    def __call__(self, sched, runnable, current):
        if current not in runnable:
            return self.rng.choice(runnable)
        desc = sched.workers[current].pending or ""
        if desc == "sleep":
            others = [t for t in runnable if t != current]
            return self.rng.choice(others) if others else current
        if desc.startswith("line:"):
            p = self.p[0] if desc.split(":")[1] in getattr(LineYield, "_sync_names", ()) else self.p[2]
        else:
            p = self.p[1]
        if self.rng.random() < p:
            others = [t for t in runnable if t != current]
            if others:
                return self.rng.choice(others)
        return current
