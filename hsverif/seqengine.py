"""Sequential differential engine (DESIGN.md 3.3): run a generated call sequence against a real
store and, after every call, compare outcome and directory abstraction with the reference model.
"""

import hashlib
import io
import os
from pathlib import Path

from .probe import staging_name
from . import absstate
from .common import (DEFAULT_ALGOS, Outcome, call, load_repo, open_store, read_all_and_close,
                     jsonable, DEFAULT_NS)
from .model import Model, canon_algo


class Finding:
    """One refuting observation, tagged with the aspect it concerns."""

    __slots__ = ("tag", "detail", "step", "op")

    def __init__(self, tag, detail, step=None, op=None):
        self.tag = tag
        self.detail = detail
        self.step = step
        self.op = op

    def to_json(self):
        return {"tag": self.tag, "detail": jsonable(self.detail), "step": self.step,
                "op": jsonable(self.op)}


class World:
    """A real store in a scratch directory + the model + the data files the calls use."""

    def __init__(self, scratch, contents, docs=None, depth=3, width=2, algo="SHA-256",
                 ns=DEFAULT_NS, pids=(), fmts=(None,), store_dir="store", store=None, datadir=None):
        self.scratch = scratch
        self.root = os.path.join(scratch, store_dir)
        self.datadir = datadir or os.path.join(scratch, "data")
        os.makedirs(self.datadir, exist_ok=True)
        self.cfg = dict(depth=depth, width=width, algo=algo, ns=ns)
        self.layout = absstate.Layout(depth, width, algo, ns)
        self.contents = dict(contents)
        self.docs = dict(docs or {})
        self.pids = set(pids)
        self.fmts = set(fmts)
        self.model = Model(self.layout, self.contents, self.docs)
        self.store = store if store is not None else open_store(self.root, depth, width, algo, ns)
        self._paths = {}
        self.ObjectMetadata = load_repo()["ObjectMetadata"]

    def reopen(self):
        self.store = open_store(self.root, **self.cfg)

    def data_path(self, name, table=None):
        key = (name, "d" if (table is not None and table is self.docs) else "c")
        if key not in self._paths:
            data = (table if table is not None else self.contents)[name]
            p = os.path.join(self.datadir, hashlib.sha256(repr(key).encode()).hexdigest()[:16])
            with open(p, "wb") as f:
                f.write(data)
            self._paths[key] = p
        return self._paths[key]

    def known_meta(self):
        return [(p, f) for p in self.pids for f in self.fmts]

    def abstract(self):
        return absstate.abstract(self.root, self.layout, self.pids, self.known_meta())

    # ------------------------------------------------------------ building arguments
    def _data_arg(self, data, name, kind, offset, table=None):
        """Returns (argument, stream or None, expected offset)."""
        if kind == "path":
            return self.data_path(name, table), None, None
        if kind == "Path":
            return Path(self.data_path(name, table)), None, None
        off = {"0": 0, "1": min(1, len(data)), "mid": len(data) // 2, "end": len(data)}[str(offset or 0)]
        if kind == "file":
            s = open(self.data_path(name, table), "rb")
        elif kind == "bytesio":
            s = io.BytesIO(data)
        elif kind == "bufreader":
            s = io.BufferedReader(io.BytesIO(data))
        elif kind == "gzip":
            # a binary stream whose .name is a file that holds OTHER bytes (the compressed form)
            import gzip
            gz = self.data_path(name, table) + ".gz"
            if not os.path.exists(gz):
                with open(gz, "wb") as f:
                    f.write(gzip.compress(data, mtime=0))
            s = gzip.open(gz, "rb")
        elif kind == "fdopen":
            # .name is a file descriptor number, not a path
            s = os.fdopen(os.open(self.data_path(name, table), os.O_RDONLY), "rb")
        elif kind == "replaced":
            # the path the stream was opened from has been replaced since: .name describes other bytes of another size
            self._replaced_n = getattr(self, "_replaced_n", 0) + 1
            p2 = self.data_path(name, table) + f".r{self._replaced_n}"
            with open(p2, "wb") as f:
                f.write(data)
            s = open(p2, "rb")
            with open(p2 + ".new", "wb") as f:
                f.write(b"other bytes of another length " * 3 + data[:17])
            os.replace(p2 + ".new", p2)
        else:
            raise ValueError(kind)
        s.seek(off)
        return s, s, off

    def object_metadata_for(self, op):
        data = self.contents[op["content"]]
        cid = self.layout.cid_of(data)
        digs = {a: hashlib.new(a, data).hexdigest() for a in DEFAULT_ALGOS}
        if op.get("meta_algos") == "with_calgo":
            c = canon_algo(op["calgo"])
            if c:
                digs[c] = hashlib.new(c, data).hexdigest()
        if op.get("cid_case") == "upper":
            cid = cid.upper()
        return self.ObjectMetadata("HashStoreNoPid", cid, len(data), digs)

    # ------------------------------------------------------------ executing one call
    def execute(self, op):
        """Perform the real call. Returns (Outcome, extras) where extras holds side observations
        (stream state, bytes read)."""
        st = self.store
        kind = op["op"]
        extras = {}
        if kind == "store":
            data = self.contents[op["content"]]
            arg, stream, off = self._data_arg(data, op["content"], op.get("kind", "path"), op.get("offset"))
            pid = op.get("pid")
            if pid is not None:
                self.pids.add(pid)
            checksum, _ = self.model.checksum_arg(op, data)
            size, _ = self.model.size_arg(op, data)
            try:
                if pid is None and not op.get("explicit_none_args"):
                    out = call(st.store_object, None, arg)
                else:
                    out = call(st.store_object, pid, arg, op.get("add"), checksum, op.get("calgo"), size)
            finally:
                if stream is not None:
                    extras["stream_closed"] = stream.closed
                    extras["stream_pos"] = None if stream.closed else stream.tell()
                    extras["stream_expected_pos"] = off
                    if not stream.closed:
                        stream.close()
            if out.ok and hasattr(out.value, "cid"):
                if not hasattr(self, "returned_cids"):
                    self.returned_cids = {}
                self.returned_cids[op["content"]] = out.value.cid
            return out, extras
        if kind == "tag":
            self.pids.add(op["pid"])
            cid = self.model.cid_of_spec(op["cid"])
            if op["cid"][0] == "returned":
                cid = getattr(self, "returned_cids", {}).get(op["cid"][1], cid)
            return call(st.tag_object, op["pid"], cid), extras
        if kind == "delete":
            return call(st.delete_object, op["pid"]), extras
        if kind == "dii":
            data = self.contents[op["content"]]
            checksum, _ = self.model.checksum_arg(op, data)
            size = len(data) if op.get("size", "ok") == "ok" else len(data) + 1
            return call(st.delete_if_invalid_object, self.object_metadata_for(op), checksum,
                        op["calgo"], size), extras
        if kind == "smeta":
            self.pids.add(op["pid"])
            self.fmts.add(op.get("fmt"))
            data = self.docs[op["doc"]]
            arg, stream, off = self._data_arg(data, op["doc"], op.get("kind", "path"),
                                              op.get("offset"), table=self.docs)
            try:
                if op.get("fmt") is None and not op.get("explicit_none_args"):
                    out = call(st.store_metadata, op["pid"], arg)
                else:
                    out = call(st.store_metadata, op["pid"], arg, op.get("fmt"))
            finally:
                if stream is not None:
                    extras["stream_closed"] = stream.closed
                    extras["stream_pos"] = None if stream.closed else stream.tell()
                    extras["stream_expected_pos"] = off
                    if not stream.closed:
                        stream.close()
            return out, extras
        if kind == "rmeta":
            if op.get("fmt") is None:
                out = call(st.retrieve_metadata, op["pid"])
            else:
                out = call(st.retrieve_metadata, op["pid"], op["fmt"])
            if out.ok:
                out.value = read_all_and_close(out.value)
            return out, extras
        if kind == "dmeta":
            if op.get("fmt") is None:
                return call(st.delete_metadata, op["pid"]), extras
            return call(st.delete_metadata, op["pid"], op["fmt"]), extras
        if kind == "retrieve":
            out = call(st.retrieve_object, op["pid"])
            if out.ok:
                out.value = read_all_and_close(out.value)
            return out, extras
        if kind == "hexdigest":
            return call(st.get_hex_digest, op["pid"], op["algo"]), extras
        raise ValueError(kind)

    # ------------------------------------------------------------ one monitored step
    def step(self, op, idx=None, check_retrievable=True, before=None):
        """Execute op, advance the model, and return (outcome, findings, before_abs, after_abs)."""
        findings = []

        def add(tag, detail):
            findings.append(Finding(tag, detail, idx, op))

        if before is None:
            before = self.abstract()
        model_before = self.model.clone()
        expect = self.model.apply(op)
        out, extras = self.execute(op)
        after = self.abstract()

        # --- outcome class
        if not expect.admits(out):
            add("outcome", {"got": out.brief(), "msg": out.msg, "allowed": expect.describe()})
            # keep the model aligned with what really happened so later steps are judged fairly
            if not out.ok:
                self.model = model_before
                if op["op"] == "store":
                    cid = self.layout.cid_of(self.contents[op["content"]])
                    if cid not in self.model.objects:
                        self.model.permitted.add(cid)
        elif not out.ok and expect.ok:
            pass
        elif not out.ok:
            # an admitted rejection: the model already encodes "no effect"
            pass
        # a rejected call that the model expected to succeed, or vice versa, was handled above
        if out.ok and expect.ok and expect.value:
            self._check_value(op, out, expect.value, add)
        # --- caller stream post-state
        if "stream_closed" in extras:
            if extras["stream_closed"]:
                add("stream:closed", "caller's stream was closed by the call")
            elif extras["stream_pos"] != extras["stream_expected_pos"]:
                add("stream:offset", {"expected": extras["stream_expected_pos"],
                                      "got": extras["stream_pos"]})
        # --- rejected calls change nothing (except a permitted orphan object)
        if not out.ok:
            self._check_unchanged(op, before, after, add)
        # --- state vs model
        self.model.resolve_permitted(set(after.objects))
        for kind, detail in self.model.compare(after):
            add("state:model:" + kind, detail)
        allow_missing = any(c not in self.model.objects for c in self.model.lists)
        for kind, detail in absstate.invariant(after, self.layout, allow_missing_objects=allow_missing):
            add("state:invariant:" + kind, detail)
        # --- every bound pid with a present object is retrievable byte for byte
        if check_retrievable:
            self.check_retrievable(add)
        return out, findings, before, after

    def check_retrievable(self, add):
        n = 0
        by_cid = {self.layout.cid_of(d): d for d in self.contents.values()}
        for pid, cid in sorted(self.model.bound.items()):
            if cid not in self.model.objects:
                continue
            n += 1
            r = call(self.store.retrieve_object, pid)
            if not r.ok:
                add("state:retrievable", {"pid": pid, "cid": cid, "error": r.brief(), "msg": r.msg})
                continue
            got = read_all_and_close(r.value)
            want = by_cid.get(cid)
            if want is not None and got != want:
                add("state:retrieve-bytes", {"pid": pid, "cid": cid, "len_got": len(got),
                                             "len_want": len(want)})
        return n

    def _check_value(self, op, out, value, add):
        kind = op["op"]
        v = out.value
        if kind == "store":
            if v.cid != value["cid"]:
                add("value:cid", {"got": v.cid, "want": value["cid"]})
            if v.obj_size != value["size"]:
                add("value:size", {"got": v.obj_size, "want": value["size"]})
            keys = set(v.hex_digests)
            if keys != value["digest_keys"]:
                add("value:digest_keys", {"extra": sorted(keys - value["digest_keys"]),
                                          "missing": sorted(value["digest_keys"] - keys)})
            for a, hx in v.hex_digests.items():
                try:
                    true = hashlib.new(a, value["data"]).hexdigest()
                except (ValueError, TypeError):
                    add("value:digest_values", {"algo": a, "problem": "unknown algorithm key"})
                    continue
                if hx != true:
                    add("value:digest_values", {"algo": a, "got": hx, "want": true})
        elif kind == "retrieve":
            by_cid = {self.layout.cid_of(d): d for d in self.contents.values()}
            want = by_cid.get(value["cid"])
            if want is not None and v != want:
                add("value:bytes", {"len_got": len(v), "len_want": len(want)})
        elif kind == "rmeta":
            if v != value["data"]:
                add("value:meta_bytes", {"len_got": len(v), "len_want": len(value["data"])})
        elif kind == "hexdigest":
            by_cid = {self.layout.cid_of(d): d for d in self.contents.values()}
            data = by_cid.get(value["cid"])
            if data is not None:
                true = hashlib.new(value["algo"], data).hexdigest()
                if v != true:
                    add("value:hexdigest", {"algo": op["algo"], "got": v, "want": true})
        elif kind == "smeta":
            want = os.path.join(self.root, value["path"])
            if os.path.normpath(str(v)) != os.path.normpath(want):
                add("value:path", {"got": str(v), "want": want})

    def _check_unchanged(self, op, before, after, add):
        bk, ak = before.key(), after.key()
        if bk == ak:
            return
        # allowed difference: a store of new content rejected at tagging may leave the object
        if op["op"] == "store":
            cid = self.layout.cid_of(self.contents[op["content"]])
            objs_b = dict(before.objects)
            objs_a = dict(after.objects)
            if cid in objs_a and cid not in objs_b:
                objs_a.pop(cid)
                if (objs_a == objs_b and before.pid_refs == after.pid_refs and
                        before.cid_refs == after.cid_refs and before.metadata == after.metadata and
                        sorted(before.residue) == sorted(after.residue) and
                        sorted(before.alien) == sorted(after.alien)):
                    return
        # allowed difference: delete_if_invalid_object removing an unreferenced object
        if op["op"] == "dii":
            cid = self.layout.cid_of(self.contents[op["content"]])
            objs_b = dict(before.objects)
            if cid in objs_b and cid not in after.objects and cid not in before.cid_refs:
                objs_b.pop(cid)
                if (objs_b == dict(after.objects) and before.pid_refs == after.pid_refs and
                        before.cid_refs == after.cid_refs and before.metadata == after.metadata and
                        sorted(before.residue) == sorted(after.residue)):
                    return
        add("state:changed-by-rejected-call", {"before": before.describe(), "after": after.describe()})


def run_sequence(world, ops, relevant=None, check_retrievable=True, stop_on_finding=True):
    """Run ops; returns dict(findings=[...relevant], foreign=[...], steps=n, trace=[...])."""
    relevant_f, foreign = [], []
    trace = []
    before = None
    n = 0
    for i, op in enumerate(ops):
        out, findings, _b, after = world.step(op, i, check_retrievable=check_retrievable, before=before)
        before = after
        n += 1
        trace.append((op, out.brief()))
        stop = False
        for f in findings:
            if relevant is None or relevant(f):
                relevant_f.append(f)
            else:
                foreign.append(f)
            stop = True
        if stop and stop_on_finding:
            break
    return {"findings": relevant_f, "foreign": foreign, "steps": n, "trace": trace}


# ---------------------------------------------------------------- helpers for property modules

def wipe_store(root):
    """Empty a store directory back to its freshly-created shape (keeps hashstore.yaml and the
    fixed directory skeleton) so that thousands of short sequences need not re-create it."""
    import shutil
    for sub in ("objects", "metadata", "refs/pids", "refs/cids", "refs"):
        d = os.path.join(root, sub)
        if not os.path.isdir(d):
            continue
        for name in os.listdir(d):
            p = os.path.join(d, name)
            if sub == "refs" and name in ("pids", "cids"):
                continue
            if sub in ("objects", "metadata", "refs") and os.path.isdir(p) and staging_name(name):
                for t in os.listdir(p):
                    tp = os.path.join(p, t)
                    shutil.rmtree(tp, ignore_errors=True) if os.path.isdir(tp) else os.remove(tp)
                continue
            if os.path.isdir(p):
                shutil.rmtree(p, ignore_errors=True)
            else:
                os.remove(p)


def path_spelling(scratch, pick):
    """A store_dir for World / WorldPool that names <scratch>/<something>/store through a spelling that is NOT the
    canonical absolute path: through a symbolic link to a directory, with a '..' segment, with a doubled separator.
    (How the caller spells the path of a store must not matter.) pick: any integer."""
    kind = pick % 4
    if kind == 0:
        return "store"
    if kind == 1:
        os.makedirs(os.path.join(scratch, "real"), exist_ok=True)
        link = os.path.join(scratch, "link")
        if not os.path.islink(link):
            os.symlink(os.path.join(scratch, "real"), link)
        return "link/store"
    if kind == 2:
        os.makedirs(os.path.join(scratch, "dd"), exist_ok=True)
        return "dd/../store"
    return "." + os.sep + os.sep + "store"


class WorldPool:
    """Reuses one scratch store directory for many sequences: wipe + fresh FileHashStore instance
    + fresh model per sequence."""

    def __init__(self, scratch, contents, docs=None, **cfg):
        self.scratch = scratch
        self.contents = contents
        self.docs = docs
        self.cfg = cfg
        self.world = None

    def fresh(self, pids=(), fmts=(None,)):
        if self.world is None:
            self.world = World(self.scratch, self.contents, self.docs, pids=pids, fmts=fmts, **self.cfg)
            return self.world
        w = self.world
        wipe_store(w.root)
        w.model = Model(w.layout, w.contents, w.docs)
        w.pids = set(pids)
        w.fmts = set(fmts)
        w.reopen()
        return w


def finding_signature(f):
    from .gen import op_shape
    sig = {"symptom": f.tag, "op": op_shape(f.op) if f.op else None}
    if f.tag == "outcome" and isinstance(f.detail, dict):
        sig["got"] = f.detail.get("got")
    return sig


def seq_witness(world, ops, findings, spec, docspec=None, upto=None):
    """A replayable description of a sequential run."""
    return {"engine": "seq", "cfg": world.cfg, "contents": spec, "docs": docspec or {},
            "pids": sorted(world.pids), "fmts": sorted(world.fmts, key=repr),
            "ops": list(ops if upto is None else ops[:upto]),
            "findings": [f.to_json() for f in findings[:4]]}


def seq_replay(witness, relevant, signature=finding_signature):
    """Re-execute a recorded sequence against the current tree and print every step."""
    from .common import new_scratch, rmtree
    from .gen import make_content
    from .runner import ShardResult
    res = ShardResult()
    scratch = new_scratch("replay")
    try:
        contents = {k: make_content(v["cseed"], v["size"]) for k, v in witness["contents"].items()}
        docs = {k: make_content(v["cseed"], v["size"]) for k, v in witness.get("docs", {}).items()}
        cfg = witness.get("cfg", {})
        w = World(scratch, contents, docs, pids=witness.get("pids", ()),
                  fmts=witness.get("fmts", (None,)), **cfg)
        before = None
        for i, op in enumerate(witness["ops"]):
            out, findings, _b, before = w.step(op, i, before=before)
            print(f"  step {i}: {op} -> {out.brief()} {out.msg or ''}")
            for f in findings:
                print(f"     finding {f.tag}: {jsonable(f.detail)}")
                if relevant(f):
                    res.violation(signature(f), witness)
        res.evaluations = 1
    finally:
        rmtree(scratch)
    return res
