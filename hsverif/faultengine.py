"""Fault, crash and observation engines over single API calls (DESIGN.md 3.6).

A case = (start-state script, one call). A dry run under the probe lists the call's operations;
fault mode raises OSError at the k-th eligible site (one-off or persistent for that destination),
crash mode kills a forked child immediately before the k-th mutating operation, observe mode runs an
observer after every operation. All three enumerate the sites of a call completely.
"""

import errno
import hashlib
import os
import shutil
import signal
import sys
import time

from . import absstate, probe, sched as S
from .common import (DEFAULT_NS, Outcome, call, load_repo, open_store, read_all_and_close, jsonable,
                     clear_atexit_tmp_handlers, Inconclusive)
from .gen import make_content, op_shape
from .seqengine import World

FAULT_KINDS = {"create", "wopen", "rename", "remove", "mkdir", "lock", "ropen", "write", "getsize"}
CRASH_KINDS = {"create", "wopen", "rename", "remove", "mkdir", "chmod", "truncate", "link",
               "flush-before-truncate", "close-write", "rmdir", "write"}
# "a failure that persists for that destination": every operation of the same class on the same destination
# keeps failing until the call returns. Putting a file AT a destination (rename onto it, create, open for
# writing, mkdir) is one class - so a failed rename is not silently rescued by shutil.move's copy fallback -
# while reading it, removing it and locking it are classes of their own (a roll-back may still remove or
# read a file that could not be written).
PERSIST_CLASS = {"create": "write-to-destination", "wopen": "write-to-destination", "rename": "write-to-destination",
                 "mkdir": "write-to-destination", "ropen": "open-for-reading", "remove": "remove", "lock": "lock",
                 "write": "write-data", "getsize": "stat-size"}
NOT_FOUND = {"PidRefsDoesNotExist", "OrphanPidRefsFileFound", "PidNotFoundInCidRefsFile",
             "RefsFileExistsButCidObjMissing"}

SPEC = {"X": {"cseed": 901, "size": 9000}, "Y": {"cseed": 902, "size": 60}, "Z": {"cseed": 903, "size": 4097},
        "E": {"cseed": 904, "size": 0}}
DOCS = {"v1": {"cseed": 911, "size": 50}, "v2": {"cseed": 912, "size": 8200}, "v3": {"cseed": 913, "size": 7}}


def _st(pid, c):
    return {"op": "store", "pid": pid, "content": c, "kind": "path"}


def _tag(pid, c):
    return {"op": "tag", "pid": pid, "cid": ["of", c]}


def _sm(pid, fmt, doc):
    return {"op": "smeta", "pid": pid, "fmt": fmt, "doc": doc, "kind": "path"}


STARTS = {
    "empty": [],
    "p2->X,p3->Y+meta": [_st("p2", "X"), _st("p3", "Y"), _sm("p3", None, "v1"), _sm("p3", "f1", "v1")],
    "p2,p3->X+meta": [_st("p2", "X"), _st("p3", "X"), _sm("p2", None, "v1"), _sm("p2", "f1", "v2"), _sm("p3", None, "v3")],
    "X-unreferenced,p3->Y": [_st(None, "X"), _st("p3", "Y")],
    "p2->missing,p3->Y": [_tag("p2", "X"), _st("p3", "Y")],
    "s->Y,p3->Y+meta": [_st("s", "Y"), _st("p3", "Y"), _sm("s", "f1", "v1")],
    # the subject pid was bound and deleted before (its shard directories exist and are empty)
    "s-was-deleted,p3->Y": [_st("s", "X"), _sm("s", "f1", "v1"), {"op": "delete", "pid": "s"}, _st("p3", "Y")],
    # the subject pid has metadata documents but no object
    "s-meta-only,p3->Y+meta": [_sm("s", None, "v1"), _sm("s", "f1", "v2"), _st("p3", "Y"), _sm("p3", None, "v3")],
}

CASES = [
    # (start, call, label)
    ("empty", _st("s", "X"), "store new content, first pid"),
    ("empty", _st("s", "E"), "store empty content"),
    ("empty", _tag("s", "X"), "tag to a cid without object"),
    ("empty", _sm("s", "f1", "v2"), "store_metadata create"),
    ("p2->X,p3->Y+meta", _st("s", "X"), "store duplicate content, additional pid"),
    ("p2->X,p3->Y+meta", _st("s", "Z"), "store new content next to bystanders"),
    ("p2->X,p3->Y+meta", _tag("s", "X"), "tag to existing cid list"),
    ("p2->X,p3->Y+meta", {"op": "delete", "pid": "p2"}, "delete sole reference"),
    ("p2->X,p3->Y+meta", {"op": "delete", "pid": "p3"}, "delete sole reference with metadata"),
    ("p2->X,p3->Y+meta", _sm("p3", "f1", "v2"), "store_metadata overwrite"),
    ("p2->X,p3->Y+meta", {"op": "dmeta", "pid": "p3", "fmt": "f1"}, "delete_metadata one"),
    ("p2->X,p3->Y+meta", {"op": "dmeta", "pid": "p3", "fmt": None}, "delete_metadata all"),
    ("p2,p3->X+meta", _st("s", "X"), "store third pid for shared content"),
    ("p2,p3->X+meta", {"op": "delete", "pid": "p2"}, "delete shared reference with metadata"),
    ("p2,p3->X+meta", _tag("s", "X"), "tag third pid"),
    ("p2,p3->X+meta", {"op": "dmeta", "pid": "p2", "fmt": None}, "delete_metadata all (2 docs)"),
    ("X-unreferenced,p3->Y", _st("s", "X"), "store for unreferenced existing object"),
    ("X-unreferenced,p3->Y", _tag("s", "X"), "tag unreferenced existing object"),
    ("p2->missing,p3->Y", _st("s", "X"), "store for a cid that has a list but no object"),
    ("p2->missing,p3->Y", {"op": "delete", "pid": "p2"}, "delete pid whose object is missing"),
    ("s->Y,p3->Y+meta", _st("s", "X"), "store on a bound pid (rejected)"),
    ("s->Y,p3->Y+meta", _sm("s", "f1", "v2"), "store_metadata overwrite on bound pid"),
    ("s->Y,p3->Y+meta", {"op": "delete", "pid": "s"}, "delete one of two sharers with metadata"),
    ("empty", {"op": "store", "pid": "s", "content": "X", "kind": "bytesio", "offset": "mid", "checksum": "ok",
               "calgo": "sha224", "size": "ok", "add": "blake2s"}, "store from a stream with correct validation data"),
    ("p2->X,p3->Y+meta", {"op": "store", "pid": "s", "content": "X", "kind": "file", "checksum": "wrong", "calgo": "md5"},
     "store duplicate content with a wrong checksum (rejected)"),
    ("X-unreferenced,p3->Y", {"op": "dii", "content": "X", "checksum": "wrong", "calgo": "sha256", "size": "ok"},
     "delete_if_invalid_object removes an unreferenced object"),
    ("p2->X,p3->Y+meta", {"op": "dii", "content": "X", "checksum": "wrong", "calgo": "sha3_256", "size": "ok"},
     "delete_if_invalid_object on a referenced object"),
    ("s->Y,p3->Y+meta", _tag("s", "Y"), "tag a bound pid to the cid it already has (rejected)"),
    ("s->Y,p3->Y+meta", _st("s", "Y"), "store the same content again on a bound pid (rejected)"),
    ("s-was-deleted,p3->Y", _st("s", "X"), "store a pid again after its deletion"),
    ("s-was-deleted,p3->Y", _st("s", "Y"), "store a deleted pid again, content shared with a bystander"),
    ("s-was-deleted,p3->Y", _sm("s", "f1", "v2"), "store_metadata for a deleted pid"),
    ("s-meta-only,p3->Y+meta", _st("s", "Y"), "store a pid that already has metadata, shared content"),
    ("s-meta-only,p3->Y+meta", {"op": "dmeta", "pid": "s", "fmt": None}, "delete_metadata all, pid without object"),
    ("s-meta-only,p3->Y+meta", _sm("s", None, "v3"), "store_metadata overwrite default format, pid without object"),
    ("s-was-deleted,p3->Y", _tag("s", "Y"), "tag a deleted pid to a bystander's cid"),
]

PIDS = ["s", "p2", "p3"]
# identifier / configuration variants (thorough tiers): different pid lengths change what a torn in-place
# rewrite leaves behind, other shard shapes and algorithms change the directory-creation steps
VARIANTS = [
    {"pids": {"s": "s", "p2": "p2", "p3": "p3"}, "cfg": (3, 2, "SHA-256")},
    {"pids": {"s": "subject/with/a-long.identifier-0001", "p2": "ab", "p3": "abc"}, "cfg": (1, 1, "MD5")},
    {"pids": {"s": "x", "p2": "matthew", "p3": "matt"}, "cfg": (2, 4, "SHA-512")},
    {"pids": {"s": "\u00e9\U00010348", "p2": "doi:10.18739/A2", "p3": "d"}, "cfg": (5, 1, "SHA-1")},
    {"pids": {"s": "p3", "p2": "p33", "p3": "p"}, "cfg": (2, 3, "SHA-384")},
]
FMTS = [None, "f1", "followup"]


class Case:
    def __init__(self, idx, scratch, mode="th", variant=0):
        self.mode = mode
        self.idx = idx
        self.variant = variant
        v = VARIANTS[variant]
        self.pidmap = v["pids"]
        self.pids = [self.pidmap[p] for p in PIDS]
        self.cfg = dict(depth=v["cfg"][0], width=v["cfg"][1], algo=v["cfg"][2])
        self.start_name, call_, self.label = CASES[idx]
        self.call = self._map(call_)
        self.start_ops = [self._map(o) for o in STARTS[self.start_name]]
        self.scratch = scratch
        self.contents = {k: make_content(v["cseed"], v["size"]) for k, v in SPEC.items()}
        self.docs = {k: make_content(v["cseed"], v["size"]) for k, v in DOCS.items()}
        self.layout = absstate.Layout(self.cfg["depth"], self.cfg["width"], self.cfg["algo"], DEFAULT_NS)
        self.template = os.path.join(scratch, "template")
        self.rundir = os.path.join(scratch, "run")
        self.datadir = os.path.join(scratch, "data")
        self._prepare()

    def _map(self, op):
        op = dict(op)
        if op.get("pid") in self.pidmap:
            op["pid"] = self.pidmap[op["pid"]]
        return op

    def world(self, store_dir, store=None):
        return World(self.scratch, self.contents, self.docs, pids=self.pids, fmts=FMTS, store_dir=store_dir,
                     store=store, datadir=self.datadir, **self.cfg)

    def _prepare(self):
        w = self.world("template")
        for op in self.start_ops:
            out, _e = w.execute(op)
            if not out.ok:
                raise Inconclusive(f"start op failed: {op} {out.brief()}")
        for c in self.contents:
            w.data_path(c)
        for d in self.docs:
            w.data_path(d, w.docs)
        self._paths = dict(w._paths)
        self.start_abs = self.abstract(self.template)
        self.bystander_before = self.bystander_view(self.template, self.subject_pid())
        # fault-free reference
        out, a, _ops = self.run_plain(record=True)
        self.ref_out = out
        self.ref_abs = a
        self.ops = _ops

    def subject_pid(self):
        return self.call.get("pid")

    def open(self, root):
        """A fresh instance in this case's synchronisation mode ('mp': USE_MULTIPROCESSING=True; the
        manager-backed lists are process-local stand-ins, single calls need no server processes)."""
        if self.mode != "mp":
            return open_store(root, **self.cfg)
        import multiprocessing as _mp
        from .concengine import _LocalManager
        real = _mp.Manager
        os.environ["USE_MULTIPROCESSING"] = "True"
        _mp.Manager = _LocalManager
        try:
            st = open_store(root, **self.cfg)
        finally:
            _mp.Manager = real
            os.environ["USE_MULTIPROCESSING"] = "False"
        if not getattr(st, "use_multiprocessing", False):
            raise Inconclusive("store built with USE_MULTIPROCESSING=True did not enter multiprocessing mode")
        return st

    def abstract(self, root):
        return absstate.abstract(root, self.layout, self.pids, [(p, f) for p in self.pids for f in FMTS])

    def fresh_run(self):
        shutil.rmtree(self.rundir, ignore_errors=True)
        shutil.copytree(self.template, self.rundir)
        store = self.open(self.rundir)
        env = self.world("run", store)
        env._paths = dict(self._paths)
        return store, env

    def run_plain(self, record=False):
        store, env = self.fresh_run()
        probe.install()
        rec = probe.Recorder(self.rundir)
        probe.set_controller(rec)
        try:
            out, _e = env.execute(self.call)
        finally:
            probe.clear_controller()
        return out, self.abstract(self.rundir), rec.ops

    # ------------------------------------------------------------------ views
    def api_view(self, a):
        """API-observable part of an abstraction (residue ignored)."""
        return (tuple(sorted(a.pid_refs.items())),
                tuple(sorted((c, tuple(sorted(a.cid_lines(c)))) for c in a.cid_refs)),
                tuple(sorted((c, v[1]) for c, v in a.objects.items())),
                tuple(sorted((repr(k), v) for k, v in a.metadata.items())))

    def bystander_view(self, root, subject, store=None):
        """What every pid other than the subject can observe, through a FRESH instance."""
        st = store or self.open(root)
        a = self.abstract(root)
        view = {}
        for pid in self.pids:
            if pid == subject:
                continue
            v = {"pid_ref": a.pid_refs.get(pid)}
            r = call(st.retrieve_object, pid)
            v["retrieve"] = self.layout.cid_of(read_all_and_close(r.value)) if r.ok else r.exc_name
            cid = a.pid_refs.get(pid)
            lines = a.cid_lines(cid) if cid in a.cid_refs else None
            v["listed"] = None if lines is None else sum(1 for ln in lines if ln == pid)
            v["meta"] = {}
            for f in FMTS[:2]:
                m = call(st.retrieve_metadata, pid, f) if f else call(st.retrieve_metadata, pid)
                v["meta"][str(f)] = hashlib.sha256(read_all_and_close(m.value)).hexdigest() if m.ok else m.exc_name
            view[pid] = v
        return view

    def sites(self, kinds):
        return [i for i, op in enumerate(self.ops) if op.kind in kinds and probe.under(os.path.abspath(self.rundir), op.path)]


# ---------------------------------------------------------------------- fault injection

RUNAWAY_OPS = 4000


class Runaway(BaseException):
    """Raised by the injector into a call that has issued an absurd number of file operations (not an Exception:
    the code under test must not swallow it in a retry loop's `except Exception`)."""


class FaultInjector:
    wants_write_ops = True

    def __init__(self, root, site, code, persistent):
        self.root = os.path.abspath(str(root))
        self.site = site
        self.code = code
        self.persistent = persistent
        self.n = -1
        self.fired = None
        self.poisoned = None
        self.injections = 0
        self.ops = []

    def wants_proxy(self, op):
        return probe.under(self.root, op.path)

    def pre(self, op):
        self.n += 1
        if self.n > RUNAWAY_OPS:
            # decided on logical steps, not on time: a call that needs ~50 file operations and has issued thousands since
            # a failure was injected is retrying without bound
            raise Runaway(f"{self.n} intercepted file operations in one call")
        self.ops.append(op)
        if op.kind not in FAULT_KINDS or not probe.under(self.root, op.path):
            return
        if self.n == self.site and self.code == "VANISH":
            if op.kind == "rename" and probe.is_private_tmp(self.root, op.path) and os.path.isfile(op.path):
                self.fired = op
                self.injections += 1
                with probe.suspended():
                    os.remove(op.path)      # the real rename now fails with a genuine, persistent ENOENT
            return
        if self.n == self.site:
            self.fired = op
            self.injections += 1
            if self.persistent:
                self.poisoned = (PERSIST_CLASS[op.kind], op.path2 or op.path)
            raise probe.errno_error(self.code, op)
        if self.poisoned is not None and PERSIST_CLASS[op.kind] == self.poisoned[0] and \
                (op.path2 or op.path) == self.poisoned[1]:
            # the same kind of system call on the same destination keeps failing until the call returns
            self.injections += 1
            raise probe.errno_error(self.code, op)

    def post(self, op, error):
        pass


def hygiene(store):
    """C08: locked lists empty; the store's locks are not held (found generically: list attributes named *locked*,
    lock attributes; the known attribute names are only a fall-back)."""
    probs = []
    mode = "mp" if getattr(store, "use_multiprocessing", False) else "th"
    lists = S.locked_lists_generic(store, "_" + mode) or S.locked_lists_generic(store) or S.locked_lists(store, mode)
    locked = {k: v for k, v in lists.items() if v}
    if locked:
        probs.append(("leaked-lock", {"lists": locked}))
    for lattr, lock in (S.store_locks(store, "_" + mode) or S.store_locks(store)).items():
        try:
            got = lock.acquire(False)
        except Exception:  # noqa
            continue
        if got:
            lock.release()
        else:
            probs.append(("leaked-lock", {"mutex": lattr}))
    return probs


def followup(store, case, pids):
    """Follow-up calls must complete; run them in a thread guarded by a generous watchdog whose
    firing is judged by state (a leaked list entry), never by time alone."""
    import threading
    probs = []
    done = threading.Event()
    err = []

    def work():
        try:
            for pid in pids:
                try:
                    store.store_metadata(pid, next(iter(case._paths.values())), "followup")
                except Exception:  # noqa
                    pass
                try:
                    store.delete_object(pid)
                except Exception:  # noqa
                    pass
        finally:
            done.set()
    t = threading.Thread(target=work, daemon=True)
    t.start()
    if not done.wait(20):
        mode = "mp" if getattr(store, "use_multiprocessing", False) else "th"
        lists = S.locked_lists_generic(store, "_" + mode) or S.locked_lists_generic(store)
        locked = {k: v for k, v in lists.items() if v}
        if locked:
            probs.append(("follow-up-blocked", {"locked_lists": locked}))
        else:
            raise Inconclusive("follow-up calls did not finish within 20 s but no identifier is locked")
    return probs


def bystander_diff(before, after):
    """Differences in what bystander pids observe. One benign change is tolerated: a bystander that was
    bound to a MISSING object may find the object present (with the right bytes) afterwards."""
    diff = {}
    for p in after:
        b, a = dict(before[p]), dict(after[p])
        if b["retrieve"] == "RefsFileExistsButCidObjMissing" and a["retrieve"] == a["pid_ref"]:
            a["retrieve"] = b["retrieve"]
        if a != b:
            diff[p] = {"before": before[p], "after": after[p]}
    return diff


def run_fault(case, site, code, persistent):
    """Returns dict(outcome, problems=[(symptom, detail)], injector)"""
    store, env = case.fresh_run()
    inj = FaultInjector(case.rundir, site, code, persistent)
    probe.install()
    probe.set_controller(inj)
    runaway = None
    try:
        out, _e = env.execute(case.call)
    except Runaway as r:
        runaway = str(r)
        out = Outcome(False, exc=RuntimeError("call aborted by the harness: " + runaway))
    finally:
        probe.clear_controller()
    probs = []
    if runaway is not None:
        return {"outcome": out, "problems": [("call-does-not-terminate", {"after_fault_at": inj.fired.describe(case.rundir) if inj.fired else None,
                                                                         "operations_issued": inj.n})],
                "fired": inj.fired, "injector": inj}
    if inj.fired is None:
        return {"outcome": out, "problems": [], "fired": None, "injector": inj}
    a = case.abstract(case.rundir)
    after_view = case.bystander_view(case.rundir, case.subject_pid())
    subject = case.subject_pid()
    kind = case.call["op"]
    # 1. success only if the whole effect was achieved
    if out.ok:
        if not case.ref_out.ok:
            probs.append(("success-although-fault-free-call-fails", {"fault_free": case.ref_out.brief()}))
        elif case.api_view(a) != case.api_view(case.ref_abs):
            probs.append(("success-reported-without-whole-effect", {"after": a.describe(), "fault_free": case.ref_abs.describe()}))
    else:
        # 2. a failed store/tag leaves the pid unbound (or its earlier binding intact) and retryable
        if kind in ("store", "tag") and case.ref_out.ok:
            if subject in a.pid_refs:
                probs.append(("raised-but-pid-bound", {"error": out.brief(), "binding": a.pid_refs[subject]}))
            fresh = case.open(case.rundir)
            env2 = case.world("run", fresh)
            env2._paths = dict(case._paths)
            r, _e = env2.execute(case.call)
            if not r.ok:
                probs.append(("retry-refused", {"first_error": out.brief(), "retry": r.brief(), "msg": r.msg}))
            elif kind == "store":
                g = call(fresh.retrieve_object, subject)
                if not g.ok or read_all_and_close(g.value) != case.contents[case.call["content"]]:
                    probs.append(("retry-not-retrievable", {"retrieve": g.brief()}))
            # undo the retry for the bystander comparison below
            a = case.abstract(case.rundir)
        if kind in ("store", "tag") and not case.ref_out.ok:
            # the call is rejected even without fault. The statement allows two outcomes after the failure: the
            # earlier binding is intact, or the pid is unbound and can be stored again at once
            now = a.pid_refs.get(subject)
            was = case.start_abs.pid_refs.get(subject)
            try:
                named = case.layout.cid_of(case.contents[case.call.get("content") or case.call["cid"][1]])
            except (KeyError, IndexError, TypeError):
                named = None
            if now != was:
                if now is not None:
                    probs.append(("earlier-binding-replaced", {"before": was, "after": now}))
                elif was is not None:
                    # the pid was bound before the call and the fault-free call is rejected: nothing this call does can
                    # create a binding, so 'its earlier binding is intact' is the alternative of the statement that
                    # applies ('unbound and can be stored again' describes a pid the call was in the middle of binding)
                    probs.append(("earlier-binding-lost" if (named is None or was == named) else "earlier-binding-to-another-object-lost",
                                  {"before": was, "named_by_failed_call": named}))
        if kind == "smeta":
            fresh = case.open(case.rundir)
            f = case.call.get("fmt")
            m = call(fresh.retrieve_metadata, subject, f) if f else call(fresh.retrieve_metadata, subject)
            want = case.start_abs.metadata.get((subject, f if f else DEFAULT_NS))
            got = hashlib.sha256(read_all_and_close(m.value)).hexdigest() if m.ok else None
            if got != want:
                probs.append(("previous-metadata-version-lost", {"want": want, "got": got if m.ok else m.brief()}))
    # 3. bystanders untouched in every case (no call of the case list legitimately changes another pid)
    diff = bystander_diff(case.bystander_before, after_view)
    if diff:
        probs.append(("bystander-changed", diff))
    # 4. C08 hygiene
    for p in hygiene(store):
        probs.append(p)
    for p in followup(store, case, list(case.pids)):
        probs.append(p)
    return {"outcome": out, "problems": probs, "fired": inj.fired, "injector": inj}


# ---------------------------------------------------------------------- crash (fork + _exit)

class CrashAt:
    wants_write_ops = True

    def __init__(self, root, site, mid=False):
        self.root = os.path.abspath(str(root))
        self.site = site
        self.mid = mid          # die INSIDE a descriptor-level write: the first half reaches the file
        self.n = -1

    def wants_proxy(self, op):
        return probe.under(self.root, op.path)

    def pre(self, op):
        self.n += 1
        if self.n == self.site:
            if self.mid and op.partial is not None:
                try:
                    op.partial()
                except BaseException:  # noqa
                    os._exit(78)
                os._exit(79)
            os._exit(77)

    def post(self, op, error):
        pass


def run_crash(case, site, mid=False):
    """Fork a child that performs the call and dies immediately before operation `site` (mid=True: inside it, after
    half of a descriptor-level write). Returns the exit status (77 = died at the site, 79 = died inside it,
    0 = call completed before reaching it)."""
    shutil.rmtree(case.rundir, ignore_errors=True)
    shutil.copytree(case.template, case.rundir)
    sys.stdout.flush()
    sys.stderr.flush()
    pid = os.fork()
    if pid == 0:
        try:
            store = case.open(case.rundir)
            env = case.world("run", store)
            env._paths = dict(case._paths)
            probe.install()
            probe.set_controller(CrashAt(case.rundir, site, mid))
            env.execute(case.call)
        except BaseException:  # noqa
            os._exit(3)
        os._exit(0)
    deadline = time.monotonic() + 60
    while True:
        done, status = os.waitpid(pid, os.WNOHANG)
        if done:
            break
        if time.monotonic() > deadline:
            os.kill(pid, signal.SIGKILL)
            os.waitpid(pid, 0)
            raise Inconclusive(f"crash child for case {case.label} site {site} did not exit within 60 s")
        time.sleep(0.0005)
    return os.waitstatus_to_exitcode(status)


def judge_crash(case, recovery_content):
    """Inspect the directory a dead child left, through a fresh instance (C10 oracle)."""
    probs = []
    notes = []
    subject = case.subject_pid()
    kind = case.call["op"]
    store = case.open(case.rundir)
    a = case.abstract(case.rundir)
    # bystanders exactly as before (and, for the fault-free effect on them, exactly as after)
    view = case.bystander_view(case.rundir, subject, store)
    for p, d in bystander_diff(case.bystander_before, view).items():
        probs.append(("bystander-changed", dict(d, pid=p)))
    if kind in ("store", "tag", "delete"):
        # the interrupted pid: complete correct bytes or a not-found / inconsistent report
        r = call(store.retrieve_object, subject)
        if r.ok:
            got = read_all_and_close(r.value)
            cid = a.pid_refs.get(subject)
            if case.layout.cid_of(got) != cid:
                probs.append(("interrupted-pid-served-wrong-bytes", {"cid": cid, "len": len(got)}))
            elif kind == "store" and got != case.contents[case.call["content"]] and \
                    cid != case.start_abs.pid_refs.get(subject):
                # (a pid that was already bound before the interrupted call keeps serving its earlier content)
                probs.append(("interrupted-pid-served-other-content", {"len": len(got)}))
        elif r.exc_name not in NOT_FOUND:
            probs.append(("interrupted-pid-unexpected-error", {"error": r.brief(), "msg": r.msg}))
        state_label = "retrievable" if r.ok else r.exc_name
        # recovery: delete (may say unknown), then store must succeed and be retrievable
        d = call(store.delete_object, subject)
        if not d.ok and d.exc_name != "PidRefsDoesNotExist":
            probs.append(("recovery-delete-failed", {"error": d.brief(), "msg": d.msg, "state": state_label}))
        env = case.world("run", store)
        env._paths = dict(case._paths)
        s, _e = env.execute(_st(subject, recovery_content))
        if not s.ok:
            probs.append(("recovery-store-failed", {"error": s.brief(), "msg": s.msg, "state": state_label}))
        else:
            g = call(store.retrieve_object, subject)
            if not g.ok or read_all_and_close(g.value) != case.contents[recovery_content]:
                probs.append(("recovery-store-not-retrievable", {"retrieve": g.brief()}))
            else:
                # 'never wedges': the pid's LATER life is ordinary too - a second delete / store round over whatever
                # the crash and the first recovery left behind (a stale marker, say)
                d2 = call(store.delete_object, subject)
                s2, _e = env.execute(_st(subject, recovery_content))
                g2 = call(store.retrieve_object, subject) if s2.ok else None
                if not d2.ok or not s2.ok or not g2.ok or read_all_and_close(g2.value) != case.contents[recovery_content]:
                    probs.append(("second-recovery-round-failed", {"delete": d2.brief(), "store": s2.brief(),
                                                                   "retrieve": g2.brief() if g2 is not None else None,
                                                                   "state": state_label}))
        # the recovery must not have harmed the bystanders either
        view2 = case.bystander_view(case.rundir, subject, store)
        for p, d in bystander_diff(case.bystander_before, view2).items():
            probs.append(("bystander-changed-by-recovery", dict(d, pid=p)))
    elif kind == "dii":
        state_label = "no-subject"
    else:
        state_label = "metadata"
        f = case.call.get("fmt")
        s = call(store.store_metadata, subject, next(iter(case._paths.values())), f) if f else \
            call(store.store_metadata, subject, next(iter(case._paths.values())))
        if not s.ok:
            probs.append(("recovery-store-metadata-failed", {"error": s.brief(), "msg": s.msg}))
        else:
            # later life of the interrupted document: delete it, store it again, read it back
            docpath = next(iter(case._paths.values()))
            with open(docpath, "rb") as fh:
                want = fh.read()
            d2 = call(store.delete_metadata, subject, f) if f else call(store.delete_metadata, subject)
            gone = call(store.retrieve_metadata, subject, f) if f else call(store.retrieve_metadata, subject)
            if gone.ok:
                read_all_and_close(gone.value)
            s2 = call(store.store_metadata, subject, docpath, f) if f else call(store.store_metadata, subject, docpath)
            g2 = (call(store.retrieve_metadata, subject, f) if f else call(store.retrieve_metadata, subject)) if s2.ok else None
            got = read_all_and_close(g2.value) if (g2 is not None and g2.ok) else None
            if not d2.ok or gone.ok or not s2.ok or got != want:
                probs.append(("second-recovery-round-failed", {"delete_metadata": d2.brief(), "retrieve_after_delete": gone.brief(),
                                                               "store_metadata": s2.brief(), "read_back_equal": got == want}))
    # later life: what the crash left behind must not trip LATER, different calls on the other pids
    for b in case.pids:
        if b == subject or case.bystander_before[b]["pid_ref"] is None:
            continue
        m = call(store.store_metadata, b, next(iter(case._paths.values())), "later")
        if not m.ok:
            probs.append(("bystander-later-call-failed", {"pid": b, "call": "store_metadata", "error": m.brief(), "msg": m.msg}))
        dm = call(store.delete_metadata, b)
        if not dm.ok:
            probs.append(("bystander-later-call-failed", {"pid": b, "call": "delete_metadata(all)", "error": dm.brief(), "msg": dm.msg}))
        if case.bystander_before[b]["retrieve"] != "RefsFileExistsButCidObjMissing":
            g = call(store.retrieve_object, b)
            if not g.ok or case.layout.cid_of(read_all_and_close(g.value)) != case.bystander_before[b]["pid_ref"]:
                probs.append(("bystander-later-call-failed", {"pid": b, "call": "retrieve_object", "error": g.brief()}))
        d2 = call(store.delete_object, b)
        if not d2.ok:
            probs.append(("bystander-later-call-failed", {"pid": b, "call": "delete_object", "error": d2.brief(), "msg": d2.msg}))
    return probs, state_label


# ---------------------------------------------------------------------- observation at every boundary

class BoundaryObserver:
    """C09: after every intercepted operation of the writer, read each permanent file the way a
    concurrent reader (or a post-mortem inspector) would."""

    wants_write_ops = True

    def __init__(self, case_or_root, layout, valid_docs, valid_cids, root=None):
        self.root = os.path.abspath(str(root or case_or_root))
        self.layout = layout
        self.valid_docs = valid_docs          # set of sha256 of complete supplied versions
        self.valid_cids = valid_cids          # set of cids used in the scenario
        self.findings = []
        self.observations = 0
        self.files_read = 0
        self.presence = {}                    # rel path -> list of presence flags over time
        self.ops = []

    def wants_proxy(self, op):
        return probe.under(self.root, op.path)

    def pre(self, op):
        self.ops.append(op)

    def post(self, op, error):
        self.observe(op.describe(self.root))

    def __call__(self, sched, widx, op):
        self.observe(f"T{widx}:{op.describe(self.root)}")

    def observe(self, where):
        self.observations += 1
        files, _dirs = absstate.walk_files(self.root)
        seen = set()
        for rel, data in files.items():
            parts = rel.split("/")
            base = parts[-1]
            if absstate.permanent_kind(rel, self.layout) in (None, "config"):
                continue        # staging files and deletion markers are not at a permanent address (C05 judges leftovers)
            self.files_read += 1
            seen.add(rel)
            if parts[0] == "objects":
                name = "".join(parts[1:])
                if self.layout.cid_of(data) != name:
                    self.findings.append(("object-content-differs-from-name", {"at": where, "path": rel, "len": len(data)}))
            elif parts[0] == "metadata":
                if hashlib.sha256(data).hexdigest() not in self.valid_docs:
                    self.findings.append(("metadata-document-not-a-supplied-version", {"at": where, "path": rel, "len": len(data)}))
            elif parts[0] == "refs" and parts[1] == "pids":
                txt = data.decode("utf-8", "replace")
                if txt not in self.valid_cids:
                    self.findings.append(("pid-ref-not-one-complete-cid", {"at": where, "path": rel, "content": txt[:80]}))
        for rel in set(self.presence) | seen:
            hist = self.presence.setdefault(rel, [False] * (self.observations - 1))
            hist.append(rel in seen)

    def flicker(self):
        """Permanent addresses whose presence changed more than once within the call."""
        out = []
        for rel, hist in self.presence.items():
            if rel.startswith("refs/cids"):
                continue
            changes = sum(1 for a, b in zip(hist, hist[1:]) if a != b)
            if changes > 1:
                out.append((rel, changes))
        return out


def run_observed(case):
    store, env = case.fresh_run()
    valid_docs = {hashlib.sha256(d).hexdigest() for d in case.docs.values()}
    valid_cids = {case.layout.cid_of(c) for c in case.contents.values()}
    obs = BoundaryObserver(case.rundir, case.layout, valid_docs, valid_cids)
    obs.observe("before-call")
    probe.install()
    probe.set_controller(obs)
    try:
        out, _e = env.execute(case.call)
    finally:
        probe.clear_controller()
    obs.observe("after-call")
    return out, obs


# ---------------------------------------------------------------------- real short writes (RLIMIT_FSIZE)

def run_fsize_limit(case, limit):
    """The call runs in a forked child under RLIMIT_FSIZE=limit (SIGXFSZ ignored), so the KERNEL cuts writes short
    / fails them with EFBIG - a disk-full style failure that no Python-level injection can imitate (a raw,
    unbuffered writer silently accepts a short count). Returns (Outcome-like dict, problems)."""
    import json as _json
    import resource
    shutil.rmtree(case.rundir, ignore_errors=True)
    shutil.copytree(case.template, case.rundir)
    r, w = os.pipe()
    sys.stdout.flush()
    sys.stderr.flush()
    pid = os.fork()
    if pid == 0:
        os.close(r)
        try:
            signal.signal(signal.SIGXFSZ, signal.SIG_IGN)
            store = case.open(case.rundir)
            env = case.world("run", store)
            env._paths = dict(case._paths)
            _soft, hard = resource.getrlimit(resource.RLIMIT_FSIZE)
            resource.setrlimit(resource.RLIMIT_FSIZE, (limit, hard))      # soft limit only, so it can be lifted again
            try:
                out, _e = env.execute(case.call)
            finally:
                resource.setrlimit(resource.RLIMIT_FSIZE, (hard, hard))
            os.write(w, _json.dumps({"ok": out.ok, "exc": out.exc_name, "msg": out.msg}).encode())
        except BaseException as err:  # noqa
            try:
                os.write(w, _json.dumps({"ok": False, "exc": "HARNESS:" + type(err).__name__, "msg": str(err)[:200]}).encode())
            except BaseException:  # noqa
                pass
        os._exit(0)
    os.close(w)
    data = b""
    deadline = time.monotonic() + 60
    while True:
        try:
            chunk = os.read(r, 65536)
        except OSError:
            break
        if not chunk:
            break
        data += chunk
        if time.monotonic() > deadline:
            break
    os.close(r)
    os.waitpid(pid, 0)
    try:
        res = _json.loads(data.decode())
    except ValueError:
        raise Inconclusive(f"child under RLIMIT_FSIZE={limit} reported nothing")
    if str(res.get("exc", "")).startswith("HARNESS:"):
        raise Inconclusive(f"harness error in the child under RLIMIT_FSIZE={limit}: {res}")
    probs = []
    a = case.abstract(case.rundir)
    subject = case.subject_pid()
    kind = case.call["op"]
    after_view = case.bystander_view(case.rundir, subject)
    if res["ok"]:
        if case.api_view(a) != case.api_view(case.ref_abs):
            probs.append(("success-reported-without-whole-effect", {"after": a.describe(), "fault_free": case.ref_abs.describe()}))
    else:
        if kind in ("store", "tag") and case.ref_out.ok:
            if subject in a.pid_refs:
                probs.append(("raised-but-pid-bound", {"error": res["exc"], "binding": a.pid_refs[subject]}))
            fresh = case.open(case.rundir)
            env2 = case.world("run", fresh)
            env2._paths = dict(case._paths)
            r2, _e = env2.execute(case.call)
            if not r2.ok:
                probs.append(("retry-refused", {"first_error": res["exc"], "retry": r2.brief(), "msg": r2.msg}))
            elif kind == "store":
                g = call(fresh.retrieve_object, subject)
                if not g.ok or read_all_and_close(g.value) != case.contents[case.call["content"]]:
                    probs.append(("retry-not-retrievable", {"retrieve": g.brief()}))
        if kind == "smeta":
            fresh = case.open(case.rundir)
            f = case.call.get("fmt")
            m = call(fresh.retrieve_metadata, subject, f) if f else call(fresh.retrieve_metadata, subject)
            want = case.start_abs.metadata.get((subject, f if f else DEFAULT_NS))
            got = hashlib.sha256(read_all_and_close(m.value)).hexdigest() if m.ok else None
            if got != want:
                probs.append(("previous-metadata-version-lost", {"want": want, "got": got if m.ok else m.brief()}))
    diff = bystander_diff(case.bystander_before, after_view)
    if diff:
        probs.append(("bystander-changed", diff))
    # whatever sits at a permanent object / metadata address must be complete (C09 clause, checked here as well)
    for cid, (size, _sha, dg) in a.objects.items():
        if dg != cid:
            probs.append(("object-content-differs-from-name", {"cid": cid, "size": size}))
    return res, probs
