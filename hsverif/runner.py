"""Generic driver: shards a property module's workload over processes, merges what the monitors
observed, applies the known-findings discipline and writes evidence."""

import importlib
import json
import os
import sys
import time

from .common import Inconclusive, load_repo, run_sharded, seed, tier, ncpu
from .report import Report


class ShardResult:
    """What one shard observed. Everything is picklable."""

    def __init__(self):
        self.evaluations = 0
        self.distinct = set()       # keys (str) of distinct non-trivial cases
        self.violations = []        # [(signature dict, witness dict)]
        self.samples = []
        self.counters = {}
        self.foreign = {}           # tag -> count (violations of other properties seen on the way)
        self.inconclusive = []
        self.notes = []

    def count(self, name, n=1):
        self.counters[name] = self.counters.get(name, 0) + n

    def sample(self, s, cap=3):
        if len(self.samples) < cap:
            self.samples.append(s)

    def violation(self, signature, witness):
        if len(self.violations) < 200:
            self.violations.append((signature, witness))
        self.count("violating_observations")


def merge(results):
    tot = ShardResult()
    for r in results:
        tot.evaluations += r.evaluations
        tot.distinct |= r.distinct
        tot.violations += r.violations
        for s in r.samples:
            if len(tot.samples) < 6:
                tot.samples.append(s)
        for k, v in r.counters.items():
            if isinstance(v, (int, float)):
                tot.counters[k] = tot.counters.get(k, 0) + v
            elif isinstance(v, (set, frozenset)):
                tot.counters[k] = set(tot.counters.get(k, set())) | set(v)
        for k, v in r.foreign.items():
            tot.foreign[k] = tot.foreign.get(k, 0) + v
        tot.inconclusive += r.inconclusive
        tot.notes += r.notes
    return tot


def run_property(modname, replay_path=None):
    mod = importlib.import_module(f"hsverif.props.{modname}")
    rep = Report(mod.ID, getattr(mod, "LEVEL", "exploration"))
    try:
        load_repo()
        if replay_path:
            with open(replay_path, encoding="utf-8") as f:
                doc = json.load(f)
            if getattr(mod, "REPLAY_BY_RERUN", False):
                # deterministic, seeded workloads that take seconds: the replay re-executes the workload of the
                # recorded tier and seed and keeps the observations with the recorded signature
                os.environ["VERIF_TIER"] = str(doc.get("tier", "quick"))
                os.environ["VERIF_SEED"] = str(doc.get("seed", 0))
                results = run_sharded(mod.run_shard, mod.shards(tier(), seed()), workers=ncpu(),
                                      timeout=getattr(mod, "WATCHDOG_S", 3600))
                want = json.dumps(doc.get("signature"), sort_keys=True)
                for r in results:
                    r.violations = [(sg, w) for sg, w in r.violations if json.dumps(sg, sort_keys=True) == want]
                    r.inconclusive = []
                print("replay by re-running the recorded workload (tier %s, seed %s); signature sought: %s"
                      % (doc.get("tier"), doc.get("seed"), want))
            elif isinstance(doc.get("witness"), dict) and doc["witness"].get("engine") == "suite":
                from . import suiteengine
                results = [suiteengine.replay(doc["witness"], mod.ID)]
            else:
                res = mod.replay(doc["witness"])
                results = [res]
        else:
            shards = mod.shards(tier(), seed())
            results = run_sharded(mod.run_shard, shards, workers=ncpu(),
                                  timeout=getattr(mod, "WATCHDOG_S", 3600))
        tot = merge(results)
    except Inconclusive as inc:
        rep.inconclusive_because(str(inc))
        return rep.finish({"evaluations": 0, "distinct_nontrivial": 0, "rule": getattr(mod, "RULE", ""),
                           "samples": []}, getattr(mod, "ASSUMPTIONS", ()))
    except Exception as err:  # noqa - a harness failure is never a verdict on the code under test
        import traceback
        rep.inconclusive_because("harness error: " + "".join(traceback.format_exception_only(type(err), err)).strip()[:500])
        traceback.print_exc()
        return rep.finish({"evaluations": 0, "distinct_nontrivial": 0, "rule": getattr(mod, "RULE", ""),
                           "samples": []}, getattr(mod, "ASSUMPTIONS", ()))
    for sig, wit in tot.violations:
        rep.violation(sig, wit)
    for r in tot.inconclusive:
        rep.inconclusive_because(r)
    for n in tot.notes:
        rep.note(n)
    if tot.foreign:
        rep.note("observations outside this property's statement were seen and left to the check "
                 "that owns them: " + json.dumps(tot.foreign, sort_keys=True))
    counters = {}
    for k, v in tot.counters.items():
        counters[k] = len(v) if isinstance(v, (set, frozenset)) else v
    cov = {
        "evaluations": tot.evaluations,
        "distinct_nontrivial": len(tot.distinct),
        "rule": getattr(mod, "RULE", ""),
        "samples": tot.samples,
        "exhaustive": bool(getattr(mod, "EXHAUSTIVE", {}).get(tier(), False)) if isinstance(getattr(mod, "EXHAUSTIVE", None), dict) else False,
        "monitor_counters": counters,
        "foreign_observations": tot.foreign,
    }
    lt = counters.get("lincheck_timeouts", 0)
    hist = counters.get("process_histories", 0) + counters.get("thread_histories", 0)
    if lt and hist and lt > 0.2 * hist:
        rep.inconclusive_because(f"the history checker timed out on {lt} of {hist} histories")
    if hasattr(mod, "min_required") and not replay_path:      # (a replay re-runs ONE witness: floors are for full runs)
        for name, need in mod.min_required(tier()).items():
            got = counters.get(name, 0) if name != "evaluations" else tot.evaluations
            if got < need:
                rep.inconclusive_because(f"monitor counter {name}={got} below the floor {need}: "
                                         "the deciding monitor was not reached often enough")
    # a replay re-executes one recorded witness: it must not replace the evidence of the last full run
    return rep.finish(cov, getattr(mod, "ASSUMPTIONS", ()), write_evidence=not replay_path)


def main(argv=None):
    argv = list(sys.argv[1:] if argv is None else argv)
    if not argv:
        print("usage: check <ID> [--tier quick|thorough] [--seed N] [--replay file]")
        return 2
    prop = argv.pop(0)
    replay = None
    while argv:
        a = argv.pop(0)
        if a == "--tier":
            os.environ["VERIF_TIER"] = argv.pop(0)
        elif a == "--seed":
            os.environ["VERIF_SEED"] = argv.pop(0)
        elif a == "--replay":
            replay = argv.pop(0)
        else:
            print("unknown argument", a)
            return 2
    os.environ.setdefault("PYTHONHASHSEED", "0")
    return run_property(prop, replay)
