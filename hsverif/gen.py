"""Seeded generators shared by the property checks: contents, identifiers, call sequences."""

import hashlib
import itertools
import random

from .common import ALL_ALGOS, DEFAULT_ALGOS, OTHER_ALGOS
from .model import SPELLINGS


def make_content(cseed, size):
    """Bytes fully determined by (cseed, size) so replay files can carry specs, not blobs. The seed also selects
    the KIND of bytes: arbitrary binary (most), ASCII text with CR/LF line ends (cseed % 7 == 3), multi-byte
    UTF-8 text (cseed % 7 == 5)."""
    if size == 0:
        return b""
    if cseed % 7 == 3:
        unit = ("line %d of a text object\r\nsecond line\n\rodd\n" % cseed).encode()
        return (unit * (size // len(unit) + 1))[:size]
    if cseed % 7 == 5:
        unit = ("\u00e9\u00df\u4e2d\U0001F600 text %d\n" % cseed).encode("utf-8")
        return (unit * (size // len(unit) + 1))[:size]
    base = hashlib.shake_128(b"hsverif-content-%d" % cseed).digest(min(size, 4096))
    if size <= len(base):
        return base[:size]
    reps = size // len(base) + 1
    return (base * reps)[:size]


def contents_from_spec(spec):
    return {name: make_content(s["cseed"], s["size"]) for name, s in spec.items()}


def boundary_sizes(rng, b=(4096, 8192, 65536)):
    sizes = {0, 1}
    for bb in b:
        sizes |= {bb - 1, bb, bb + 1, 2 * bb - 1, 2 * bb, 2 * bb + 1, 3 * bb + 7}
    sizes.add(rng.randrange(2, 6 * max(b)))
    sizes |= {2 ** 20, 2 ** 20 + 1}
    return sorted(sizes)


def spelling(rng, algo):
    return rng.choice(SPELLINGS[algo])


def op_shape(op):
    """Mechanism-level shape of an operation (no random values)."""
    k = op["op"]
    if k == "store":
        parts = ["pid" if op.get("pid") is not None else "nopid", "kind=" + op.get("kind", "path")]
        if op.get("add"):
            parts.append("add")
        if op.get("checksum", "none") != "none":
            parts.append("checksum=" + op["checksum"])
        if op.get("size", "none") != "none":
            parts.append("size=" + op["size"])
        return "store(" + ",".join(parts) + ")"
    if k == "tag":
        return "tag(" + op["cid"][0] + ")"
    if k == "dii":
        return f"dii(checksum={op.get('checksum')},size={op.get('size', 'ok')},meta={op.get('meta_algos', 'default')}" + \
            (",cid=UPPER)" if op.get("cid_case") == "upper" else ")")
    if k in ("smeta", "rmeta", "dmeta"):
        return f"{k}({'default' if op.get('fmt') is None else 'fmt'})"
    return k


# ---------------------------------------------------------------- object-operation menus

def object_menu(pids, content_names, fake_cids=(1,), validations=True, kinds=("path",)):
    """A finite menu of object operations over small alphabets (used bounded-exhaustively)."""
    menu = []
    for c in content_names:
        for kind in kinds:
            menu.append({"op": "store", "pid": None, "content": c, "kind": kind})
        menu.append({"op": "dii", "content": c, "checksum": "ok", "calgo": "sha256", "size": "ok"})
        menu.append({"op": "dii", "content": c, "checksum": "wrong", "calgo": "sha256", "size": "ok"})
    for p in pids:
        for c in content_names:
            for kind in kinds:
                menu.append({"op": "store", "pid": p, "content": c, "kind": kind})
            menu.append({"op": "tag", "pid": p, "cid": ["of", c]})
        for n in fake_cids:
            menu.append({"op": "tag", "pid": p, "cid": ["fake", n]})
        menu.append({"op": "delete", "pid": p})
    if validations:
        for p in pids[:1]:
            for c in content_names[:1]:
                menu.append({"op": "store", "pid": p, "content": c, "kind": "path",
                             "checksum": "wrong", "calgo": "md5"})
                menu.append({"op": "store", "pid": p, "content": c, "kind": "path", "size": "wrong"})
    return menu


def random_object_op(rng, pids, content_names, fake_cids=(1, 2), kinds=("path", "Path", "file"),
                     with_validation=True):
    r = rng.random()
    if r < 0.30:
        op = {"op": "store", "pid": rng.choice(pids), "content": rng.choice(content_names),
              "kind": rng.choice(kinds)}
        if op["kind"] in ("file", "bytesio", "bufreader"):
            op["offset"] = rng.choice(["0", "1", "mid", "end"])
        if with_validation and rng.random() < 0.4:
            mode = rng.choice(["ok", "upper", "wrong", "size_ok", "size_wrong", "both_ok", "both_wrong"])
            algo = rng.choice(ALL_ALGOS)
            if mode in ("ok", "upper", "wrong"):
                op.update(checksum=mode, calgo=spelling(rng, algo))
            elif mode == "size_ok":
                op.update(size="ok")
            elif mode == "size_wrong":
                op.update(size="wrong")
            elif mode == "both_ok":
                op.update(checksum="ok", calgo=spelling(rng, algo), size="ok")
            else:
                op.update(checksum="wrong", calgo=spelling(rng, algo), size="wrong")
        if rng.random() < 0.2:
            op["add"] = spelling(rng, rng.choice(ALL_ALGOS))
        return op
    if r < 0.38:
        return {"op": "store", "pid": None, "content": rng.choice(content_names), "kind": rng.choice(kinds)}
    if r < 0.52:
        q = rng.random()
        if q < 0.5:
            return {"op": "tag", "pid": rng.choice(pids), "cid": ["of", rng.choice(content_names)]}
        if q < 0.7:
            return {"op": "tag", "pid": rng.choice(pids), "cid": ["returned", rng.choice(content_names)]}
        if q < 0.8:
            return {"op": "tag", "pid": rng.choice(pids), "cid": ["upper", rng.choice(content_names)]}
        return {"op": "tag", "pid": rng.choice(pids), "cid": ["fake", rng.choice(fake_cids)]}
    if r < 0.78:
        return {"op": "delete", "pid": rng.choice(pids)}
    if r < 0.90:
        algo = rng.choice(DEFAULT_ALGOS + OTHER_ALGOS[:2])
        op = {"op": "dii", "content": rng.choice(content_names),
              "checksum": rng.choice(["ok", "wrong", "upper"]), "calgo": spelling(rng, algo),
              "size": rng.choice(["ok", "ok", "wrong"]),
              "meta_algos": rng.choice(["default", "with_calgo"])}
        if rng.random() < 0.15:
            op["cid_case"] = "upper"
            op["meta_algos"] = "with_calgo"
        return op
    if r < 0.95:
        return {"op": "retrieve", "pid": rng.choice(pids)}
    return {"op": "hexdigest", "pid": rng.choice(pids), "algo": spelling(rng, rng.choice(ALL_ALGOS))}


def random_meta_op(rng, pids, fmts, doc_names, kinds=("path", "Path", "file")):
    r = rng.random()
    pid = rng.choice(pids)
    fmt = rng.choice(fmts)
    if r < 0.45:
        op = {"op": "smeta", "pid": pid, "fmt": fmt, "doc": rng.choice(doc_names), "kind": rng.choice(kinds)}
        if op["kind"] == "file":
            op["offset"] = rng.choice(["0", "mid", "end"])
        return op
    if r < 0.65:
        return {"op": "rmeta", "pid": pid, "fmt": fmt}
    if r < 0.85:
        return {"op": "dmeta", "pid": pid, "fmt": fmt}
    return {"op": "dmeta", "pid": pid, "fmt": None}


def sequences_upto(menu, length):
    for n in range(1, length + 1):
        yield from itertools.product(menu, repeat=n)


def chunk(seq, n):
    """Split a list into n nearly equal contiguous chunks (drops empties)."""
    seq = list(seq)
    k, m = divmod(len(seq), n)
    out, pos = [], 0
    for i in range(n):
        size = k + (1 if i < m else 0)
        if size:
            out.append(seq[pos:pos + size])
        pos += size
    return out


# ---------------------------------------------------------------- adversarial identifiers (C18)

_META = ["/", "..", "../", "/etc/passwd", ".", "-", "--", "*", "?", "[", "]", "{", "}", "$", ";", "&",
         "|", "\\", "`", "'", '"', "~", "%", "#", "=", ":", "@", "!", "(", ")", "<", ">", "\x00",
         "\x01", "\x7f", "\x1b", "\u0301", "\u200d", "\U0001F600", "\U00010348", "é", "ß", "İ", "ǆ", "ﬁ",
         "e\u0301", "%2F", "%2f", "%00", "%20", "\u212b", "\u00c5", "A\u030a", "..%2F", "+"]


def adversarial_id(rng, maxlen=40):
    r = rng.random()
    if r < 0.15:
        base = rng.choice(["../" * rng.randint(1, 6) + "etc/passwd", "/etc/passwd", "..", ".", "-rf",
                           "--help", "a/b/c", "/abs/path", "./rel", "~root", "C:\\x", "objects/tmp/x",
                           "refs/pids/00/00/00/x", "hashstore.yaml", "x_delete", "tmp"])
    elif r < 0.25:
        base = "".join(rng.choice("abcdef0123456789") for _ in range(rng.choice([32, 40, 64, 96, 128])))
    elif r < 0.32:
        n = rng.choice([255, 256, 1000, 5000])
        base = "".join(rng.choice("abcXYZ/._-") for _ in range(n))
    else:
        n = rng.randint(1, maxlen)
        alphabet = _META + list("abcABC012")
        base = "".join(rng.choice(alphabet) for _ in range(n))
    base = "".join(ch for ch in base if not ch.isspace())
    return base or "x"


def relatives(rng, base):
    """Identifiers related to base: prefix, suffix, case variant, NUL-extended, doubled."""
    out = []
    if len(base) > 1:
        out.append(base[:-1])
        out.append(base[1:])
    out.append(base + base[-1])
    out.append(base + "\x00")
    out.append(base.swapcase())
    out.append(base + "/")
    out.append(base + ".")
    out.append("." + base)
    import unicodedata
    import urllib.parse
    for form in ("NFC", "NFD", "NFKC"):
        out.append(unicodedata.normalize(form, base))
    out.append(urllib.parse.quote(base, safe=""))
    out.append(urllib.parse.unquote(base))
    out.append(base.lower())
    out.append(base.upper())
    out = [x for x in out if x and x != base and not any(ch.isspace() for ch in x)]
    return out
