"""pytest plugin (`-p hsverif.suitemon`): the repository's own test suite as one more workload under monitors.

The public methods of FileHashStore are wrapped, from outside the repository, with monitors that only OBSERVE
(they never raise into the test and never touch the store). The inputs are another author's: real documents from
tests/testdata, states the tests build through private helpers, mocked failures. Every monitor is conditional on
what it needs to be sound:

* only calls made while no other thread is alive and in the main process are judged (the sequential statements);
* 'the invariant is preserved' is judged only when it held before the call (tests tamper with the store on purpose)
  and the call returned or raised a documented, non-I/O error;
* 'unchanged' compares the permanent files (not empty directories, not the client's log).

Results go to the JSON file named by HSVERIF_SUITEMON_OUT; the check that started pytest turns them into verdicts.
"""

import functools
import hashlib
import json
import multiprocessing
import os
import threading

from . import absstate
from .probe import staging_name

S = {"observed": {}, "judged": {}, "skipped": {}, "violations": [], "tests": 0, "tests_with_judged_calls": 0}
_cur = {"nodeid": None, "judged": 0}
_tls = threading.local()
DEFAULTS = ("md5", "sha1", "sha256", "sha384", "sha512")
READ_ONLY = ("retrieve_object", "retrieve_metadata", "get_hex_digest")
MUTATING = ("store_object", "tag_object", "delete_object", "delete_if_invalid_object", "store_metadata", "delete_metadata")


def _alone():
    """No thread other than the caller and those that were already alive when the test started (plugins' own)."""
    me = threading.get_ident()
    return all(t.ident == me or t.ident in _cur.get("baseline", ()) for t in threading.enumerate())


def _count(table, name):
    S[table][name] = S[table].get(name, 0) + 1


def _layout(root):
    import yaml
    from .common import HASHLIB_OF  # noqa
    with open(os.path.join(root, "hashstore.yaml"), encoding="utf-8") as f:
        cfg = yaml.safe_load(f)
    return absstate.Layout(cfg["store_depth"], cfg["store_width"], cfg["store_algorithm"], cfg["store_metadata_namespace"])


def _files(root):
    files, _dirs = absstate.walk_files(root)
    return {k: hashlib.sha256(v).hexdigest() for k, v in files.items() if k != "python_client.log"}


def _permanent(files):
    out = {}
    for k, v in files.items():
        parts = k.split("/")
        if len(parts) >= 3 and parts[0] in ("objects", "metadata", "refs") and staging_name(parts[1]):
            continue
        out[k] = v
    return out


def _violation(monitor, method, detail):
    if len(S["violations"]) < 100:
        S["violations"].append({"monitor": monitor, "method": method, "test": _cur["nodeid"], "detail": detail})


def _source_bytes(data):
    try:
        if isinstance(data, (str, os.PathLike)) and os.path.isfile(data):
            with open(data, "rb") as f:
                return f.read()
    except OSError:
        pass
    return None


def _wrap(name, orig):
    @functools.wraps(orig)
    def w(self, *a, **k):
        _count("observed", name)
        judged = (not getattr(_tls, "inside", False) and _alone()
                  and multiprocessing.current_process().name == "MainProcess")
        root = None
        if judged:
            try:
                root = os.fspath(self.root)
                lay = _layout(root)
                before_files = _files(root)
                before_abs = absstate.abstract(root, lay)
                before_ok = not absstate.invariant(before_abs, lay, allow_missing_objects=True)
                src = None
                if name == "store_object":
                    d = k.get("data", a[1] if len(a) > 1 else None)
                    src = _source_bytes(d)
                elif name == "store_metadata":
                    d = k.get("metadata", a[1] if len(a) > 1 else None)
                    src = _source_bytes(d)
            except Exception as e:  # noqa - a store the monitor cannot read is not judged
                judged = False
                _count("skipped", "reason:unreadable:" + type(e).__name__)
        elif not getattr(_tls, "inside", False):
            _count("skipped", "reason:other-threads-alive" if multiprocessing.current_process().name == "MainProcess"
                   else "reason:child-process")
        if not judged:
            _count("skipped", name)
            return orig(self, *a, **k)
        _tls.inside = True
        err = None
        try:
            result = orig(self, *a, **k)
        except BaseException as e:  # noqa
            err = e
            result = None
        finally:
            _tls.inside = False
        try:
            _judge(name, root, lay, before_files, before_abs, before_ok, src, a, k, result, err)
        except Exception as e:  # noqa - the monitor never disturbs the test
            _count("skipped", name + ":monitor-error:" + type(e).__name__)
        if err is not None:
            raise err
        return result
    w.__hsverif_monitored__ = True
    return w


def _judge(name, root, lay, before_files, before_abs, before_ok, src, a, k, result, err):
    after_files = _files(root)
    _count("judged", name)
    _cur["judged"] += 1
    io_error = isinstance(err, OSError) and not isinstance(err, FileNotFoundError)
    mocked = err is not None and type(err).__module__.startswith(("unittest", "pytest", "_pytest"))
    # --- read-only calls change nothing (C17), whether they succeed or are rejected
    if name in READ_ONLY:
        _count("judged", "read-only-unchanged")
        if after_files != before_files:
            diff = sorted(set(after_files.items()) ^ set(before_files.items()))[:4]
            _violation("read-only-call-changed-the-store", name, {"diff": [d[0] for d in diff]})
        return
    # --- a call rejected for its arguments changes no permanent file (C17)
    if isinstance(err, (ValueError, TypeError)) and not mocked and before_ok:
        _count("judged", "rejected-unchanged")
        if _permanent(after_files) != _permanent(before_files):
            diff = sorted(set(_permanent(after_files).items()) ^ set(_permanent(before_files).items()))[:4]
            _violation("rejected-call-changed-the-store", name, {"error": type(err).__name__, "diff": [d[0] for d in diff]})
    # --- the structural invariant is preserved (C05) by completed and by rejected calls
    if before_ok and not io_error and not mocked:
        after_abs = absstate.abstract(root, lay)
        probs = absstate.invariant(after_abs, lay, allow_missing_objects=True)
        _count("judged", "invariant-preserved")
        if probs:
            _violation("invariant-broken-by-call", name,
                       {"outcome": "ok" if err is None else type(err).__name__, "problems": [p[0] for p in probs][:5]})
    ename = type(err).__name__ if err is not None else None
    # --- a rejected re-bind leaves every reference file and every object that existed unchanged (C03)
    if ename in ("PidRefsAlreadyExistsError", "HashStoreRefsAlreadyExists") and before_ok and name in ("store_object", "tag_object"):
        _count("judged", "rebind-rejected-unchanged")
        perm_b, perm_a = _permanent(before_files), _permanent(after_files)
        changed = [k for k, v in perm_b.items() if (k.startswith("refs/") or k.startswith("objects/")) and perm_a.get(k) != v]
        added = [k for k in perm_a if k.startswith("refs/") and k not in perm_b]
        if changed or added:
            _violation("rejected-rebind-changed-references-or-objects", name, {"changed": changed[:4], "added": added[:4]})
    # --- no completed call removes or alters an object that a pid still references afterwards (C04)
    if before_ok and not io_error and not mocked:
        _count("judged", "referenced-objects-intact")
        after_abs2 = absstate.abstract(root, lay)
        for rel, cid in after_abs2.raw_pidrefs.items():
            if before_abs.raw_pidrefs.get(rel) == cid and cid in before_abs.objects and cid in after_abs2.cid_refs:
                if after_abs2.objects.get(cid) != before_abs.objects[cid]:
                    _violation("referenced-object-removed-or-altered", name, {"cid": cid, "outcome": ename or "ok"})
                    break
    # --- validation verdict == (size and checksum match), judged from the call's own arguments (C06)
    if name == "store_object" and src is not None and not io_error and not mocked:
        pid = k.get("pid", a[0] if a else None)
        checksum = k.get("checksum", a[3] if len(a) > 3 else None)
        calgo = k.get("checksum_algorithm", a[4] if len(a) > 4 else None)
        size = k.get("expected_object_size", a[5] if len(a) > 5 else None)
        if pid is not None and (checksum is not None and calgo is not None or size is not None) and (checksum is None) == (calgo is None):
            verdict = None
            try:
                halgo = str(calgo).lower().replace("-", "").replace("_", "") if calgo is not None else None
                if halgo is not None and halgo.startswith("sha3"):
                    halgo = "sha3_" + halgo[4:]
                ok_sum = True if checksum is None else (hashlib.new(halgo, src).hexdigest() == str(checksum).lower())
                ok_size = True if size is None else (isinstance(size, int) and not isinstance(size, bool) and size == len(src))
                verdict = ok_sum and ok_size
            except (ValueError, TypeError):
                verdict = None
            if verdict is not None and (err is None or ename in ("NonMatchingChecksum", "NonMatchingObjSize")):
                _count("judged", "validation-verdict")
                if verdict and err is not None:
                    _violation("valid-object-rejected", name, {"error": ename})
                if not verdict and err is None:
                    _violation("invalid-object-accepted", name, {"checksum_given": checksum is not None, "size_given": size is not None})
                if not verdict and err is not None and isinstance(pid, str):
                    if lay.pidref_rel(pid) in after_files and lay.pidref_rel(pid) not in before_files:
                        _violation("invalid-object-left-pid-bound", name, {"error": ename})
    # --- what store_object reports is true and the bytes are at their address (C01, C02, C15)
    if name == "store_object" and err is None and src is not None:
        _count("judged", "store-result-true")
        cid = getattr(result, "cid", None)
        bad = {}
        if cid != lay.cid_of(src):
            bad["cid"] = cid
        if getattr(result, "obj_size", None) != len(src):
            bad["obj_size"] = getattr(result, "obj_size", None)
        hd = getattr(result, "hex_digests", None) or {}
        for key in DEFAULTS:
            if key not in hd:
                bad.setdefault("missing_default_digests", []).append(key)
        for key, val in hd.items():
            try:
                if hashlib.new(key, src).hexdigest() != val:
                    bad.setdefault("false_digests", []).append(key)
            except (ValueError, TypeError):
                pass
        rel = lay.obj_rel(lay.cid_of(src))
        if after_files.get(rel) != hashlib.sha256(src).hexdigest():
            bad["object_file"] = rel
        if bad:
            _violation("store-result-untrue", name, bad)
    # --- a stored metadata document is at its address with the supplied bytes (C11, C15)
    if name == "store_metadata" and err is None and src is not None:
        pid = k.get("pid", a[0] if a else None)
        fmt = k.get("format_id", a[2] if len(a) > 2 else None)
        if isinstance(pid, str):
            _count("judged", "metadata-at-address")
            rel = lay.meta_rel(pid, fmt)
            if after_files.get(rel) != hashlib.sha256(src).hexdigest():
                _violation("metadata-not-at-address", name, {"expected_at": rel})


def pytest_configure(config):
    import hashstore.filehashstore as _fhs
    from hashstore.filehashstore import FileHashStore
    S["imported_from"] = os.path.abspath(_fhs.__file__)
    for name in READ_ONLY + MUTATING:
        orig = FileHashStore.__dict__.get(name)
        if orig is None or getattr(orig, "__hsverif_monitored__", False):
            continue
        setattr(FileHashStore, name, _wrap(name, orig))


def pytest_runtest_setup(item):
    _cur["nodeid"] = item.nodeid
    _cur["judged"] = 0
    _cur["baseline"] = {t.ident for t in threading.enumerate() if t is not threading.main_thread()}


def pytest_runtest_teardown(item, nextitem):
    S["tests"] += 1
    if _cur["judged"]:
        S["tests_with_judged_calls"] += 1


def pytest_sessionfinish(session, exitstatus):
    out = os.environ.get("HSVERIF_SUITEMON_OUT")
    S["pytest_exit"] = int(exitstatus)
    if out:
        with open(out, "w", encoding="utf-8") as f:
            json.dump(S, f, indent=1, sort_keys=True)
