"""Free-running stress engine and history checker (DESIGN.md 3.5).

Complements the cooperative scheduler where it cannot own the primitives: real OS-scheduled threads
or real forked processes (multiprocessing mode). Many SHORT histories are produced; each call is
recorded at the client boundary as (worker, op, t_call, outcome, t_return) on CLOCK_MONOTONIC, and a
Wing-Gong search looks for a linearization that the reference model admits and that ends in the
observed directory state.
"""

import json
import os
import random
import signal
import sys
import threading
import time

from . import absstate, probe
from .common import DEFAULT_NS, Inconclusive, Outcome, call, load_repo, open_store, read_all_and_close
from .model import Model
from .seqengine import World


class Jitter:
    """Probe controller that injects seeded micro-sleeps at shared operations (no other effect)."""

    def __init__(self, root, rng, p=0.35, max_us=800):
        self.root = os.path.abspath(str(root))
        self.rng = rng
        self.p = p
        self.max_us = max_us
        self.n = 0

    def wants_proxy(self, op):
        return False

    def pre(self, op):
        if probe.op_is_shared(self.root, op):
            self.n += 1
            if self.rng.random() < self.p:
                time.sleep(self.rng.randrange(1, self.max_us) / 1e6)

    def post(self, op, error):
        pass


def _worker_body(env, plan, seed_, out_records, wid, barrier):
    rng = random.Random(seed_)
    probe.install()
    probe.set_controller(Jitter(env.root, rng))
    try:
        barrier()
        for i, op in enumerate(plan):
            t0 = time.monotonic_ns()
            out, _e = env.execute(op)
            t1 = time.monotonic_ns()
            val = None
            if out.ok and isinstance(out.value, (bytes, bytearray)):
                import hashlib
                val = hashlib.sha256(out.value).hexdigest()
            out_records.append({"w": wid, "i": i, "op": op, "t0": t0, "t1": t1, "ok": out.ok,
                                "exc": out.exc_name, "cls": out.cls, "val": val, "msg": out.msg})
    finally:
        probe.clear_controller()


def run_threads(env, plans, seed_, timeout=25):
    """Real threads, OS-scheduled. Returns (records, hung:bool)."""
    records = []
    bar = threading.Barrier(len(plans))
    lists = [[] for _ in plans]
    ths = []
    for wid, plan in enumerate(plans):
        t = threading.Thread(target=_worker_body, args=(env, plan, seed_ * 31 + wid, lists[wid], wid, bar.wait), daemon=True)
        ths.append(t)
        t.start()
    deadline = time.monotonic() + timeout
    for t in ths:
        t.join(max(0.0, deadline - time.monotonic()))
    hung = any(t.is_alive() for t in ths)
    if hung:
        import traceback
        frames = sys._current_frames()
        parked = []
        for t in ths:
            if t.is_alive() and t.ident in frames:
                stack = traceback.extract_stack(frames[t.ident])
                names = [f"{os.path.basename(fr.filename)}:{fr.name}" for fr in stack]
                parked.append(any(n.endswith(":wait") for n in names) and any("filehashstore.py" in n for n in names))
        hung = "parked-in-wait" if parked and all(parked) else "unknown"
    for lst in lists:
        records += lst
    return records, hung


def _process_main(env, plan, seed_, wid, barrier, conn, dump_path):
    """Body of one forked worker (started through multiprocessing's fork context, i.e. the way an application
    would fork workers: multiprocessing's after-fork hooks run, so every manager proxy gets its own connection)."""
    recs = []
    code = 0
    try:
        import faulthandler
        dump = open(dump_path, "w")
        faulthandler.register(signal.SIGUSR1, file=dump, all_threads=True)
    except Exception:  # noqa
        pass
    try:
        _worker_body(env, plan, seed_, recs, wid, lambda: barrier.wait(30))
    except BaseException as err:  # noqa
        recs.append({"w": wid, "i": -1, "harness_error": repr(err)})
        code = 3
    try:
        conn.send(recs)
        conn.close()
    except BaseException:  # noqa
        code = 4
    os._exit(code)


def run_processes(env, plans, seed_, timeout=25):
    """Real worker processes forked from the process that constructed the store (multiprocessing 'fork'
    context; the store object with its multiprocessing primitives is inherited).
    Returns (records, exit_codes, hung) with hung in (False, 'parked-in-wait', 'unknown')."""
    import multiprocessing
    ctx = multiprocessing.get_context("fork")
    bar = ctx.Barrier(len(plans))
    procs = []
    sys.stdout.flush()
    sys.stderr.flush()
    for wid, plan in enumerate(plans):
        parent_conn, child_conn = ctx.Pipe(duplex=False)
        dump_path = os.path.join(env.scratch, f"hang-{os.getpid()}-{wid}-{time.monotonic_ns()}.txt")
        p = ctx.Process(target=_process_main, args=(env, plan, seed_ * 31 + wid, wid, bar, child_conn, dump_path), daemon=True)
        p.start()
        child_conn.close()
        procs.append((p, parent_conn, dump_path))
    records, codes = [], []
    hung = False
    parked_flags = []
    deadline = time.monotonic() + timeout
    for p, conn, dump_path in procs:
        got = None
        while True:
            remaining = deadline - time.monotonic()
            if remaining <= 0:
                break
            try:
                if conn.poll(min(remaining, 0.05)):
                    got = conn.recv()
                    break
            except (EOFError, OSError):
                break
            if not p.is_alive() and not conn.poll(0):
                break
        if got is not None:
            records += got
        if p.is_alive() and got is None:
            hung = True
            try:
                os.kill(p.pid, signal.SIGUSR1)
                time.sleep(0.3)
                try:
                    with open(dump_path) as fh:
                        tb = fh.read()
                except OSError:
                    tb = ""
                parked_flags.append(("filehashstore.py" in tb) and (" in wait" in tb))
                p.kill()
            except ProcessLookupError:
                pass
        p.join(5)
        codes.append(p.exitcode if p.exitcode is not None else -9)
        try:
            conn.close()
        except OSError:
            pass
        try:
            os.remove(dump_path)
        except OSError:
            pass
    if hung:
        hung = "parked-in-wait" if parked_flags and all(parked_flags) else "unknown"
    return records, codes, hung


# ---------------------------------------------------------------------- history checking

class _Out:
    """Adapter: a recorded outcome in the shape Expect.admits() wants."""

    def __init__(self, rec):
        self.ok = rec["ok"]
        self.exc_name = rec["exc"]
        self.cls = rec["cls"]


def linearizable(records, model0, final_abs, budget=200000, tolerate_store_rejected_by_delete=False,
                 accept_diffs=None):
    """Wing-Gong search. Returns (True, order) / (False, None) / (None, None) when the budget ran out.
    tolerate_store_rejected_by_delete: additionally treat a store_object rejected 'in progress' as a
    no-op when it overlaps a delete_object of the same pid (used only to CLASSIFY a history that
    failed the strict search as the known mechanism KF-C07-store-rejected-by-delete)."""
    ops = [r for r in records if r.get("i", 0) >= 0 and "op" in r]
    n = len(ops)
    ops.sort(key=lambda r: r["t0"])
    steps = [0]
    seen = set()

    def overlaps_same_pid_store(r):
        for q in ops:
            if q is not r and q["op"]["op"] == "store" and q["op"].get("pid") == r["op"].get("pid") and \
                    q["t0"] < r["t1"] and r["t0"] < q["t1"]:
                return True
        return False

    def overlaps_same_pid(r, kind):
        for q in ops:
            if q is not r and q["op"]["op"] == kind and q["op"].get("pid") == r["op"].get("pid") and \
                    q["t0"] < r["t1"] and r["t0"] < q["t1"]:
                return True
        return False

    def rec(done, model, order):
        steps[0] += 1
        if steps[0] > budget:
            raise TimeoutError
        if len(done) == n:
            if final_abs is None:
                return order
            m = model.clone()
            m.resolve_permitted(set(final_abs.objects))
            diffs = m.compare(final_abs)
            if not diffs or (accept_diffs is not None and accept_diffs(diffs)):
                return order
            return None
        key = (frozenset(done), model.key(), tuple(sorted(model.permitted)))
        if key in seen:
            return None
        seen.add(key)
        pending = [i for i in range(n) if i not in done]
        min_ret = min(ops[i]["t1"] for i in pending)
        for i in pending:
            r = ops[i]
            if r["t0"] > min_ret:
                continue     # some pending op returned before this one was called
            if r["cls"] == "in_progress" and r["op"]["op"] == "store" and (
                    overlaps_same_pid_store(r) or (tolerate_store_rejected_by_delete and overlaps_same_pid(r, "delete"))):
                res = rec(done | {i}, model, order + [i])
                if res is not None:
                    return res
                continue
            m = model.clone()
            expect = m.apply(r["op"])
            if not expect.admits(_Out(r)):
                continue
            if not r["ok"]:
                # an admitted rejection: the model encodes its (lack of) effect already
                pass
            if r["ok"] and r.get("val") is not None and expect.value:
                import hashlib
                want = None
                if "data" in expect.value:
                    want = hashlib.sha256(expect.value["data"]).hexdigest()
                elif "cid" in expect.value and r["op"]["op"] == "retrieve":
                    want = expect.value["cid"] if m.layout.halgo == "sha256" else None
                if want is not None and want != r["val"]:
                    continue
            res = rec(done | {i}, m, order + [i])
            if res is not None:
                return res
        return None

    try:
        order = rec(frozenset(), model0, [])
    except TimeoutError:
        return None, None
    except RecursionError:
        return None, None
    if order is None:
        return False, None
    return True, [(ops[i]["w"], ops[i]["i"]) for i in order]


def final_model(records, model0, order):
    """Replay a found linearization on the model and return the model after it."""
    byid = {(r["w"], r["i"]): r for r in records if "op" in r}
    m = model0.clone()
    for key in order:
        r = byid[tuple(key)]
        if r["cls"] == "in_progress":
            continue
        m.apply(r["op"])
    return m


def diagnose(records, model0, final_abs, layout):
    """Second-pass classification of a history that failed the strict search. Returns a mechanism label."""
    v, order = linearizable(records, model0, final_abs, tolerate_store_rejected_by_delete=True)
    if v:
        return "store-rejected-in-progress-while-delete-holds-pid"
    # a linearization whose final state differs only by objects missing on disk
    only_missing = lambda diffs: {d[0] for d in diffs} == {"object-missing"}
    v2, order2 = linearizable(records, model0, final_abs, tolerate_store_rejected_by_delete=True,
                              accept_diffs=only_missing)
    if v2:
        m = final_model(records, model0, order2)
        m.resolve_permitted(set(final_abs.objects))
        diffs = m.compare(final_abs)
        ops = [r for r in records if "op" in r]
        missing = set(diffs[0][1])
        storers = [r for r in ops if r["op"]["op"] == "store" and r["ok"] and
                   layout.cid_of(model0.contents[r["op"]["content"]]) in missing]
        removers = [r for r in ops if r["op"]["op"] in ("delete", "dii") and r["ok"]]
        if any(a["t0"] < b["t1"] and b["t0"] < a["t1"] for a in storers for b in removers):
            strict = linearizable(records, model0, final_abs, accept_diffs=only_missing)[0]
            return "store-vs-object-removal" + ("" if strict else "+store-rejected-in-progress-while-delete-holds-pid")
        return "final-state-differs:object-missing"
    # a linearization whose final state differs only by an object LEFT on disk without references: the known
    # mechanism 'delete_object of a pid bound to a missing object racing a store that brings the object in'
    only_extra = lambda diffs: {d[0] for d in diffs} == {"object-unexpected"}
    v4, order4 = linearizable(records, model0, final_abs, tolerate_store_rejected_by_delete=True, accept_diffs=only_extra)
    if v4:
        m = final_model(records, model0, order4)
        m.resolve_permitted(set(final_abs.objects))
        extra = set(m.compare(final_abs)[0][1])
        ops = [r for r in records if "op" in r]
        storers = [r for r in ops if r["op"]["op"] == "store" and layout.cid_of(model0.contents[r["op"]["content"]]) in extra]
        deleters = [r for r in ops if r["op"]["op"] == "delete" and r["ok"]]
        # the racing deleter must have been bound to that cid while its object was missing: a tag to an absent object
        # earlier in the history (or in the start state) is the only way the public API creates that state
        tagged_missing = any(r["op"]["op"] == "tag" and r["ok"] for r in ops) or any(
            c not in model0.objects for c in model0.lists)
        if tagged_missing and any(a["t0"] < b["t1"] and b["t0"] < a["t1"] for a in storers for b in deleters):
            strict = linearizable(records, model0, final_abs, accept_diffs=only_extra)[0]
            return "delete-of-missing-object-vs-store" + ("" if strict else "+store-rejected-in-progress-while-delete-holds-pid")
        return "final-state-differs:object-unexpected"
    v3, _o = linearizable(records, model0, None, tolerate_store_rejected_by_delete=True)
    if v3:
        return "final-state-differs"
    return "outcomes-not-linearizable"
