"""Store-directory abstraction and the structural invariant (DESIGN.md 3.2).

The layout arithmetic here (`shard`, `H`) is an independent implementation of the README layout;
it never calls into the code under test.
"""

import hashlib
import os

from .common import HASHLIB_OF
from .probe import staging_name


class Layout:
    """Independent implementation of the published layout for one configuration."""

    def __init__(self, depth, width, algo, ns):
        self.depth = int(depth)
        self.width = int(width)
        self.algo = algo
        self.halgo = HASHLIB_OF[algo]
        self.ns = ns
        self.hexlen = hashlib.new(self.halgo).digest_size * 2

    def H(self, text):
        # (text read back from a damaged reference list may carry undecodable bytes as surrogate escapes)
        return hashlib.new(self.halgo, text.encode("utf-8", "surrogateescape")).hexdigest()

    def cid_of(self, data):
        return hashlib.new(self.halgo, data).hexdigest()

    def shard(self, hexstr):
        toks = []
        pos = 0
        for _ in range(self.depth):
            t = hexstr[pos:pos + self.width]
            if t:
                toks.append(t)
            pos += self.width
        rest = hexstr[pos:]
        if rest:
            toks.append(rest)
        return toks

    def obj_rel(self, cid):
        return "/".join(["objects"] + self.shard(cid))

    def cidref_rel(self, cid):
        return "/".join(["refs", "cids"] + self.shard(cid))

    def pidref_rel(self, pid):
        return "/".join(["refs", "pids"] + self.shard(self.H(pid)))

    def metadir_rel(self, pid):
        return "/".join(["metadata"] + self.shard(self.H(pid)))

    def meta_rel(self, pid, fmt=None):
        fmt = self.ns if fmt is None else fmt
        return self.metadir_rel(pid) + "/" + self.H(pid + fmt)


_HEXDIGITS = set("0123456789abcdef")


def permanent_kind(rel, layout):
    """'object' / 'cidref' / 'pidref' / 'meta' / 'config' when `rel` has exactly the shape of a permanent address of
    the published layout for this configuration (hexadecimal shard tokens of the configured depth and width, digest
    length of the store algorithm), else None - a staging file, a deletion marker or anything else that is allowed
    to exist only while a call is in flight, whatever it is called."""
    if rel in ("hashstore.yaml", "python_client.log"):
        return "config"
    parts = rel.split("/")

    def shaped(tokens):
        joined = "".join(tokens)
        return len(joined) == layout.hexlen and set(joined) <= _HEXDIGITS and layout.shard(joined) == list(tokens)
    if parts[0] == "objects" and shaped(parts[1:]):
        return "object"
    if parts[0] == "refs" and len(parts) > 2 and parts[1] == "cids" and shaped(parts[2:]):
        return "cidref"
    if parts[0] == "refs" and len(parts) > 2 and parts[1] == "pids" and shaped(parts[2:]):
        return "pidref"
    if parts[0] == "metadata" and len(parts) > 2 and shaped(parts[1:-1]) and len(parts[-1]) == layout.hexlen and set(parts[-1]) <= _HEXDIGITS:
        return "meta"
    return None


def walk_files(root):
    """relative path -> bytes for every regular file below root (symlinks are reported as files
    with their link text so that nothing escapes notice)."""
    out = {}
    dirs = set()
    root = os.fspath(root)
    for dp, dn, fn in os.walk(root):
        rel = os.path.relpath(dp, root)
        rel = "" if rel == "." else rel.replace(os.sep, "/")
        if rel:
            dirs.add(rel)
        for f in fn:
            p = os.path.join(dp, f)
            r = (rel + "/" + f) if rel else f
            if os.path.islink(p):
                out[r] = b"<symlink>" + os.readlink(p).encode()
            else:
                try:
                    with open(p, "rb") as fh:
                        out[r] = fh.read()
                except FileNotFoundError:
                    pass
    return out, dirs


def snapshot(root):
    """path -> (size, sha256) plus the directory set; used for byte-for-byte unchanged checks."""
    files, dirs = walk_files(root)
    return ({k: (len(v), hashlib.sha256(v).hexdigest()) for k, v in files.items()}, frozenset(dirs))


class Abs:
    """Canonical abstract value of a store directory."""

    __slots__ = ("objects", "pid_refs", "cid_refs", "metadata", "residue", "alien", "dirs",
                 "other", "raw_pidrefs", "raw_meta")

    def __init__(self):
        self.objects = {}    # cid -> (size, sha256 of bytes, digest-under-store-algo)
        self.pid_refs = {}   # pid (or "?<relpath>" when the path maps to no known pid) -> content str
        self.cid_refs = {}   # cid -> raw text of the list
        self.metadata = {}   # (pid, fmt) or ("?", relpath) -> sha256 of bytes
        self.residue = []    # tmp files, *_delete files
        self.alien = []      # files in unexpected places
        self.other = {}      # hashstore.yaml etc
        self.dirs = frozenset()
        self.raw_pidrefs = {}
        self.raw_meta = {}

    def key(self):
        return (
            tuple(sorted((c, v[1]) for c, v in self.objects.items())),
            tuple(sorted(self.pid_refs.items())),
            tuple(sorted(self.cid_refs.items())),
            tuple(sorted((repr(k), v) for k, v in self.metadata.items())),
            tuple(sorted(self.residue)),
            tuple(sorted(self.alien)),
        )

    def cid_lines(self, cid):
        txt = self.cid_refs.get(cid)
        if txt is None:
            return None
        return txt.split("\n")[:-1] if txt.endswith("\n") else txt.split("\n")

    def describe(self):
        return {
            "objects": sorted(self.objects),
            "pid_refs": dict(sorted(self.pid_refs.items())),
            "cid_refs": {c: t for c, t in sorted(self.cid_refs.items())},
            "metadata": sorted(repr(k) for k in self.metadata),
            "residue": sorted(self.residue),
            "alien": sorted(self.alien),
        }


def abstract(root, layout, known_pids=(), known_meta=()):
    """Walk the directory once. known_pids: iterable of pid strings used by the scenario;
    known_meta: iterable of (pid, fmt) pairs (fmt None = default namespace)."""
    files, dirs = walk_files(root)
    a = Abs()
    a.dirs = frozenset(dirs)
    pid_of_path = {layout.pidref_rel(p): p for p in known_pids}
    meta_of_path = {}
    for (p, f) in known_meta:
        eff = layout.ns if f is None else f
        meta_of_path[layout.meta_rel(p, eff)] = (p, eff)
    for rel, data in files.items():
        parts = rel.split("/")
        base = parts[-1]
        if rel in ("hashstore.yaml", "python_client.log"):
            a.other[rel] = data
            continue
        if len(parts) >= 3 and parts[0] in ("objects", "metadata", "refs") and staging_name(parts[1]):
            a.residue.append(rel)
            continue
        if base.endswith("_delete") or "_delete." in base:
            a.residue.append(rel)
            continue
        if parts[0] == "objects":
            cid = "".join(parts[1:])
            if layout.obj_rel(cid) != rel:
                a.alien.append(rel)
                continue
            a.objects[cid] = (len(data), hashlib.sha256(data).hexdigest(), layout.cid_of(data))
        elif parts[0] == "refs" and len(parts) > 2 and parts[1] == "cids":
            cid = "".join(parts[2:])
            if layout.cidref_rel(cid) != rel:
                a.alien.append(rel)
                continue
            a.cid_refs[cid] = data.decode("utf-8", "surrogateescape")
        elif parts[0] == "refs" and len(parts) > 2 and parts[1] == "pids":
            txt = data.decode("utf-8", "surrogateescape")
            a.raw_pidrefs[rel] = txt
            pid = pid_of_path.get(rel)
            a.pid_refs[pid if pid is not None else "?" + rel] = txt
        elif parts[0] == "metadata":
            a.raw_meta[rel] = data
            key = meta_of_path.get(rel)
            a.metadata[key if key is not None else ("?", rel)] = hashlib.sha256(data).hexdigest()
        else:
            a.alien.append(rel)
    return a


def invariant(a, layout, allow_missing_objects=False):
    """Structural invariant I(abs): needs no pid alphabet because cid lists hold pids verbatim.
    Returns a list of human-readable problems (empty = holds)."""
    probs = []
    if a.residue:
        probs.append(("residue", sorted(a.residue)))
    if a.alien:
        probs.append(("alien-file", sorted(a.alien)))
    listed = {}
    for cid, txt in a.cid_refs.items():
        if txt == "":
            probs.append(("empty-cid-list", cid))
            continue
        if not txt.endswith("\n"):
            probs.append(("cid-list-last-line-unterminated", cid))
        lines = a.cid_lines(cid)
        seen = set()
        for ln in lines:
            if ln == "":
                probs.append(("blank-line-in-cid-list", cid))
                continue
            if ln in seen:
                probs.append(("duplicate-pid-in-cid-list", (cid, ln)))
            seen.add(ln)
            listed.setdefault(ln, []).append(cid)
            rel = layout.pidref_rel(ln)
            got = a.raw_pidrefs.get(rel)
            if got is None:
                probs.append(("listed-pid-has-no-pid-ref", (cid, ln)))
            elif got != cid:
                probs.append(("listed-pid-bound-elsewhere", (cid, ln, got)))
        if not allow_missing_objects and cid not in a.objects:
            probs.append(("cid-list-without-object", cid))
    for rel, txt in a.raw_pidrefs.items():
        lines = a.cid_lines(txt) if txt in a.cid_refs else None
        if lines is None:
            probs.append(("pid-ref-names-cid-without-list", (rel, txt)))
            continue
        n = sum(1 for ln in lines if layout.pidref_rel(ln) == rel)
        if n != 1:
            probs.append(("pid-ref-not-listed-exactly-once", (rel, txt, n)))
    for pid, cids in listed.items():
        if len(cids) > 1:
            probs.append(("pid-in-several-cid-lists", (pid, sorted(cids))))
    for cid, (size, _sha, dg) in a.objects.items():
        if dg != cid:
            probs.append(("object-digest-differs-from-name", (cid, dg)))
    return probs
