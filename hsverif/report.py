"""Verdicts, evidence files, replay files and the known-findings discipline (DESIGN.md 5)."""

import hashlib
import json
import os
import sys
import time

from .common import VERIF_ROOT, jsonable, seed, tier

KNOWN_FILE = os.path.join(VERIF_ROOT, "known_findings.json")
# the two overrides exist for calibration runs against scratch copies (they keep such runs from
# overwriting the evidence of the real tree); registered commands never set them
EVIDENCE_DIR = os.environ.get("HSVERIF_EVIDENCE_DIR") or os.path.join(VERIF_ROOT, "evidence")
REPLAY_DIR = os.environ.get("HSVERIF_REPLAY_DIR") or os.path.join(VERIF_ROOT, "replays")


def load_known(prop):
    try:
        with open(KNOWN_FILE, encoding="utf-8") as f:
            doc = json.load(f)
    except FileNotFoundError:
        return []
    return [k for k in doc.get("findings", []) if k.get("property") == prop and
            k.get("status", "open") == "open"]


def sig_matches(known_sig, sig):
    """A known finding matches when every key of its signature is matched by the violation's
    signature: equal scalars, or (for a list in the known signature) membership / set equality."""
    for k, want in known_sig.items():
        got = sig.get(k)
        if isinstance(want, dict) and "any_of" in want:
            if got not in want["any_of"]:
                return False
        elif isinstance(want, list) and isinstance(got, list):
            if sorted(map(str, want)) != sorted(map(str, got)):
                return False
        elif want != got:
            return False
    return True


class Report:
    def __init__(self, prop, level="exploration"):
        self.prop = prop
        self.level = level
        self.t0 = time.monotonic()
        self.violations = []      # (signature, witness)
        self.known_seen = {}      # known id -> count
        self.known = load_known(prop)
        self.inconclusive = []
        self.notes = []
        self._seen_sigs = {}

    def violation(self, signature, witness):
        """Register a refuting observation. Returns 'known' or 'new'."""
        for k in self.known:
            if sig_matches(k["signature"], signature):
                self.known_seen.setdefault(k["id"], {"count": 0, "what": k.get("what", k.get("mechanism", ""))})
                self.known_seen[k["id"]]["count"] += 1
                self.known_seen[k["id"]].setdefault("example", jsonable(witness))
                return "known"
        key = json.dumps(jsonable(signature), sort_keys=True)
        ent = self._seen_sigs.get(key)
        if ent is None:
            self._seen_sigs[key] = [1, signature, witness]
            self.violations.append((signature, witness))
        else:
            ent[0] += 1
        return "new"

    def inconclusive_because(self, reason):
        self.inconclusive.append(reason)

    def note(self, text):
        if text not in self.notes and len(self.notes) < 50:
            self.notes.append(text)

    def _write_replay(self, signature, witness):
        os.makedirs(REPLAY_DIR, exist_ok=True)
        body = json.dumps({"property": self.prop, "signature": jsonable(signature),
                           "witness": witness, "seed": seed(), "tier": tier()},
                          indent=1, sort_keys=True, default=lambda o: jsonable(o))
        h = hashlib.sha256(body.encode()).hexdigest()[:12]
        path = os.path.join(REPLAY_DIR, f"{self.prop}-{h}.json")
        with open(path, "w", encoding="utf-8") as f:
            f.write(body)
        return path

    def finish(self, coverage, assumptions=(), write_evidence=True):
        """Write the evidence file, print verdict lines, return the exit code."""
        wall = time.monotonic() - self.t0
        cov = dict(coverage)
        cov.setdefault("samples", [])
        cov["samples"] = jsonable(cov["samples"])[:8] if cov["samples"] else []
        cov["known_findings_seen"] = {k: v["count"] for k, v in self.known_seen.items()}
        cov["inconclusive"] = list(self.inconclusive)
        if self.notes:
            cov["notes"] = self.notes
        n_viol = len(self.violations)
        cov["violation_signatures"] = [
            {"signature": jsonable(s), "occurrences": self._seen_sigs[json.dumps(jsonable(s), sort_keys=True)][0]}
            for s, _ in self.violations[:80]
        ]
        ev = {
            "property_id": self.prop,
            "tier": tier(),
            "seed": seed(),
            "level": self.level,
            "coverage": cov,
            "assumptions": list(assumptions),
            "wall_s": round(wall, 3),
            "violations": n_viol,
        }
        if write_evidence:
            os.makedirs(EVIDENCE_DIR, exist_ok=True)
            tmp = os.path.join(EVIDENCE_DIR, f".{self.prop}.json.tmp{os.getpid()}")
            with open(tmp, "w", encoding="utf-8") as f:
                json.dump(jsonable_top(ev), f, indent=1, sort_keys=True)
                f.write("\n")
            os.replace(tmp, os.path.join(EVIDENCE_DIR, f"{self.prop}.json"))

        for kid, v in sorted(self.known_seen.items()):
            print(f"KNOWN-FINDING: property={self.prop} {kid}: {v['what']} (seen {v['count']}x)")
        code = 0
        if n_viol:
            for sig, wit in self.violations[:10]:
                path = self._write_replay(sig, wit)
                print(f"VIOLATION property={self.prop} replay={path}")
                print("  signature: " + json.dumps(jsonable(sig), sort_keys=True)[:600])
            if n_viol > 10:
                print(f"  ... and {n_viol - 10} further distinct signatures (see evidence file)")
            code = 1
        elif self.inconclusive or cov.get("evaluations", 0) == 0:
            why = "; ".join(self.inconclusive) or "the deciding monitor evaluated nothing"
            print(f"INCONCLUSIVE property={self.prop} reason={why}")
            code = 2
        summary = {k: cov.get(k) for k in ("evaluations", "distinct_nontrivial") if k in cov}
        print(f"{self.prop} tier={tier()} seed={seed()} wall={wall:.1f}s "
              f"{'HELD on what was observed' if code == 0 else ('VIOLATED' if code == 1 else 'INCONCLUSIVE')} "
              f"{json.dumps(summary)}")
        sys.stdout.flush()
        return code


def jsonable_top(ev):
    out = dict(ev)
    out["coverage"] = {k: jsonable(v) for k, v in ev["coverage"].items()}
    return out
