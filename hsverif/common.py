"""Shared plumbing: loading the code under test, scratch stores, outcome classes,
sharding work over processes, evidence and verdict output.

Everything here is stdlib-only and is run by /venv/bin/python (the interpreter the
repository's own suite uses).
"""

import atexit
import hashlib
import io
import json
import logging
import os
import random
import shutil
import sys
import tempfile
import time
import traceback
from concurrent.futures import ProcessPoolExecutor, as_completed
from concurrent.futures.process import BrokenProcessPool
import multiprocessing

VERIF_ROOT = os.path.dirname(os.path.dirname(os.path.abspath(__file__)))
REPO_ROOT = os.environ.get("HSVERIF_REPO", "/repo")
# HSVERIF_SRC is a calibration-only override (DESIGN.md section 5); registered commands never set it.
SRC = os.environ.get("HSVERIF_SRC", os.path.join(REPO_ROOT, "src"))

DEFAULT_NS = "https://ns.dataone.org/service/types/v2.0#SystemMetadata"
STORE_ALGOS = ["MD5", "SHA-1", "SHA-256", "SHA-384", "SHA-512"]
HASHLIB_OF = {
    "MD5": "md5",
    "SHA-1": "sha1",
    "SHA-256": "sha256",
    "SHA-384": "sha384",
    "SHA-512": "sha512",
}
DEFAULT_ALGOS = ["md5", "sha1", "sha256", "sha384", "sha512"]
OTHER_ALGOS = ["sha224", "sha3_224", "sha3_256", "sha3_384", "sha3_512", "blake2b", "blake2s"]
ALL_ALGOS = DEFAULT_ALGOS + OTHER_ALGOS


class Inconclusive(Exception):
    """The deciding monitor could not reach a verdict (never folded into held/violated)."""


_loaded = {}


def load_repo():
    """Import the code under test from the current working tree; returns the module namespace."""
    if _loaded:
        return _loaded
    os.environ.setdefault("HASHSTORE_VERIF", "1")
    if SRC in sys.path:
        sys.path.remove(SRC)
    sys.path.insert(0, SRC)
    for name in list(sys.modules):
        if name == "hashstore" or name.startswith("hashstore."):
            del sys.modules[name]
    import hashstore  # noqa
    import hashstore.filehashstore as fhs
    import hashstore.filehashstore_exceptions as exc

    if not os.path.abspath(fhs.__file__).startswith(os.path.abspath(SRC)):
        raise Inconclusive(
            f"hashstore imported from {fhs.__file__}, not from the working tree {SRC}"
        )
    logging.disable(logging.CRITICAL)
    _loaded.update(
        fhs=fhs,
        exc=exc,
        FileHashStore=fhs.FileHashStore,
        ObjectMetadata=fhs.ObjectMetadata,
        hashstore=hashstore,
    )
    return _loaded


# ------------------------------------------------------------------ scratch space

_scratch_roots = []


def scratch_base():
    for cand in ("/dev/shm", os.environ.get("TMPDIR") or "", tempfile.gettempdir()):
        if cand and os.path.isdir(cand) and os.access(cand, os.W_OK):
            return cand
    return tempfile.gettempdir()


def new_scratch(tag="run"):
    d = tempfile.mkdtemp(prefix=f"hsverif-{tag}-{os.getpid()}-", dir=scratch_base())
    _scratch_roots.append((os.getpid(), d))
    return d


def _cleanup_scratch():
    for pid, d in _scratch_roots:
        if pid == os.getpid():
            shutil.rmtree(d, ignore_errors=True)


atexit.register(_cleanup_scratch)


def rmtree(d):
    shutil.rmtree(d, ignore_errors=True)


def props_for(path, depth=3, width=2, algo="SHA-256", ns=DEFAULT_NS):
    return {
        "store_path": str(path),
        "store_depth": depth,
        "store_width": width,
        "store_algorithm": algo,
        "store_metadata_namespace": ns,
    }


def open_store(path, depth=3, width=2, algo="SHA-256", ns=DEFAULT_NS):
    return load_repo()["FileHashStore"](props_for(path, depth, width, algo, ns))


def clear_atexit_tmp_handlers():
    """hashstore registers one atexit closure per temp file; in a harness process that performs
    100k calls this list only costs time at exit. Scratch directories are removed wholesale."""
    try:
        atexit._clear()  # noqa
    except Exception:
        pass
    atexit.register(_cleanup_scratch)


# ------------------------------------------------------------------ outcomes

def exc_classes():
    e = load_repo()["exc"]
    return e


DOCUMENTED_ERRORS = ("StoreObjectForPidAlreadyInProgress", "IdentifierNotLocked", "CidRefsContentError", "CidRefsFileNotFound",
                     "OrphanPidRefsFileFound", "PidRefsContentError", "PidRefsFileNotFound", "PidRefsAlreadyExistsError",
                     "PidRefsDoesNotExist", "PidNotFoundInCidRefsFile", "NonMatchingObjSize", "NonMatchingChecksum",
                     "RefsFileExistsButCidObjMissing", "HashStoreRefsAlreadyExists", "UnsupportedAlgorithm",
                     "ValueError", "TypeError", "FileNotFoundError", "FileExistsError", "PermissionError",
                     "IsADirectoryError", "NotADirectoryError", "OSError", "AttributeError", "KeyError", "RuntimeError")


def documented_name(err):
    """The name under which a caller that catches the documented classes sees this exception: the nearest class in
    its MRO that is one of them, for exception classes the hashstore package itself defines (a refinement such as
    `class BadIdentifier(ValueError)` IS the documented class for every caller that catches it)."""
    if type(err).__name__ in DOCUMENTED_ERRORS or not (type(err).__module__ or "").startswith("hashstore"):
        # library exceptions keep their own name: a UnicodeDecodeError that escapes is not a deliberate ValueError
        return type(err).__name__
    for klass in type(err).__mro__:
        if klass.__name__ in DOCUMENTED_ERRORS:
            return klass.__name__
    return type(err).__name__


def classify_exception(err):
    """Coarse outcome classes (DESIGN.md 3.3)."""
    n = documented_name(err)
    if n in ("HashStoreRefsAlreadyExists", "PidRefsAlreadyExistsError"):
        return "already_exists"
    if n in ("NonMatchingChecksum", "NonMatchingObjSize"):
        return "mismatch"
    if n in (
        "PidRefsDoesNotExist",
        "OrphanPidRefsFileFound",
        "PidNotFoundInCidRefsFile",
        "RefsFileExistsButCidObjMissing",
    ):
        return "not_found"
    if n == "StoreObjectForPidAlreadyInProgress":
        return "in_progress"
    if n == "UnsupportedAlgorithm":
        return "bad_argument"
    if n in ("ValueError", "TypeError"):
        return "value_error"  # refined by the caller: bad_argument or not_found(no metadata)
    if isinstance(err, FileNotFoundError):
        return "file_not_found"
    if isinstance(err, OSError):
        return "os_error"
    return "other:" + n


class Outcome:
    """Result of one API call observed at the client boundary."""

    __slots__ = ("ok", "value", "exc", "cls", "exc_name", "msg")

    def __init__(self, ok, value=None, exc=None):
        self.ok = ok
        self.value = value
        self.exc = exc
        if ok:
            self.cls = "ok"
            self.exc_name = None
            self.msg = None
        else:
            self.cls = classify_exception(exc)
            self.exc_name = documented_name(exc)
            self.msg = str(exc)[:300]

    def brief(self):
        if self.ok:
            return "ok"
        return self.cls if self.cls.endswith(self.exc_name) else f"{self.cls}:{self.exc_name}"

    def __repr__(self):
        return f"<Outcome {self.brief()}>"


def call(fn, *a, **kw):
    try:
        return Outcome(True, fn(*a, **kw))
    except Exception as err:  # noqa - the harness observes every exception class
        return Outcome(False, exc=err)


def read_all_and_close(stream):
    try:
        return stream.read()
    finally:
        stream.close()


# ------------------------------------------------------------------ misc helpers

def digest(data, algo):
    return hashlib.new(algo, data).hexdigest()


def sha(data):
    return hashlib.sha256(data).hexdigest()


def content_bytes(rng, size):
    """Deterministic pseudo-random bytes; cheap for large sizes."""
    if size == 0:
        return b""
    seed = rng.getrandbits(64).to_bytes(8, "big")
    out = hashlib.shake_128(seed).digest(min(size, 1 << 16))
    if size > len(out):
        out = (out * (size // len(out) + 1))[:size]
    return out


def tier():
    t = os.environ.get("VERIF_TIER", "quick")
    return t if t in ("quick", "thorough") else "quick"


def seed():
    try:
        return int(os.environ.get("VERIF_SEED", "0"))
    except ValueError:
        return 0


def ncpu():
    try:
        n = len(os.sched_getaffinity(0))
    except Exception:
        n = os.cpu_count() or 2
    return max(1, min(16, n))


def jsonable(x, depth=0):
    if depth > 8:
        return repr(x)[:200]
    if isinstance(x, (str, int, float, bool)) or x is None:
        if isinstance(x, str) and len(x) > 400:
            return x[:200] + f"...<{len(x)} chars>"
        return x
    if isinstance(x, bytes):
        if len(x) <= 24:
            return "b:" + x.hex()
        return f"bytes[{len(x)}]:sha256={hashlib.sha256(x).hexdigest()[:16]}"
    if isinstance(x, dict):
        return {str(k): jsonable(v, depth + 1) for k, v in list(x.items())[:200]}
    if isinstance(x, (list, tuple, set, frozenset)):
        seq = sorted(x, key=repr) if isinstance(x, (set, frozenset)) else x
        return [jsonable(v, depth + 1) for v in list(seq)[:200]]
    if isinstance(x, Outcome):
        return x.brief()
    if isinstance(x, os.PathLike):
        return "path:" + os.fspath(x)
    return repr(x)[:200]


# ------------------------------------------------------------------ parallel sharding

def _run_shard(fn, args):
    try:
        load_repo()
        return ("ok", fn(*args))
    except Inconclusive as inc:
        return ("inconclusive", str(inc))
    except BaseException:  # noqa
        return ("error", traceback.format_exc())


def run_sharded(fn, arglist, workers=None, timeout=None):
    """Run fn(*args) for every args in arglist over a process pool (fork context, so workers see
    the already imported working tree). Returns the list of results in order. A worker that
    crashes or a harness error yields Inconclusive - never a silent pass."""
    workers = workers or ncpu()
    if len(arglist) <= 1 or workers <= 1 or os.environ.get("HSVERIF_SERIAL"):
        out = []
        for a in arglist:
            st, res = _run_shard(fn, a)
            if st != "ok":
                raise Inconclusive(f"shard failed ({st}): {res}")
            out.append(res)
        return out
    ctx = multiprocessing.get_context("fork")
    results = [None] * len(arglist)
    with ProcessPoolExecutor(max_workers=min(workers, len(arglist)), mp_context=ctx) as ex:
        futs = {ex.submit(_run_shard, fn, a): i for i, a in enumerate(arglist)}
        try:
            for fut in as_completed(futs, timeout=timeout):
                st, res = fut.result()
                if st != "ok":
                    for f in futs:
                        f.cancel()
                    raise Inconclusive(f"shard {futs[fut]} failed ({st}): {res}")
                results[futs[fut]] = res
        except BrokenProcessPool as bpp:
            raise Inconclusive(f"worker process died: {bpp}")
        except TimeoutError:
            for f in futs:
                f.cancel()
            raise Inconclusive(f"shards did not finish within the watchdog of {timeout}s")
    return results


def split_seeds(master, n):
    rng = random.Random(master)
    return [rng.getrandbits(48) for _ in range(n)]


class Timer:
    def __init__(self):
        self.t0 = time.monotonic()

    def elapsed(self):
        return time.monotonic() - self.t0
