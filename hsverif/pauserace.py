"""Cross-process 'pause and race' engine (C16): deterministic evidence of exclusion among processes.

The store is built with USE_MULTIPROCESSING=True in this process. A child is forked from it (multiprocessing 'fork'
context) while no call is in flight and waits for a go-signal. The parent then performs call A under a probe controller
that, immediately before A's k-th mutating file operation on a shared store path, sends the go-signal and gives the
child up to WAIT seconds to perform call B to completion. Then A continues; both finish. The verdict is on what the
property states - outcomes and final store state must equal those of a sequential order (A;B or B;A, computed with the
real code) - never on whether the child 'entered a section'. With working exclusion the child simply blocks until A is
done; without it, B runs inside A's window and the lost update shows in the final state.

Timing is used in ONE direction only: a child that does not finish within WAIT counts as 'blocked or slow' and the
run goes on (possibly missing a race on a loaded machine); nothing is ever judged violated because of a time-out.
"""

import os
import shutil
import time

from . import absstate, probe
from .common import Inconclusive, call, load_repo, open_store
from .seqengine import World

WAIT = 0.6


class PauseAt:
    wants_write_ops = False

    def __init__(self, root, site, on_pause):
        self.root = os.path.abspath(str(root))
        self.site = site
        self.n = -1
        self.on_pause = on_pause
        self.fired = None

    def wants_proxy(self, op):
        return False

    def pre(self, op):
        if op.kind not in probe.MUTATING or not probe.op_is_shared(self.root, op):
            return
        self.n += 1
        if self.n == self.site and self.fired is None:
            self.fired = op.describe(self.root)
            self.on_pause()

    def post(self, op, error):
        pass


def _child_main(conn, scratch, contents, docs, pids, fmts, cfg, store, datadir, paths, op, dump_path):
    try:
        import faulthandler
        import signal
        faulthandler.register(signal.SIGUSR1, file=open(dump_path, "w"), all_threads=True)
    except Exception:  # noqa
        pass
    try:
        conn.recv()                                   # go-signal
        env = World(scratch, contents, docs, pids=pids, fmts=fmts, store_dir="run", store=store, datadir=datadir, **cfg)
        env._paths = dict(paths)
        out, _e = env.execute(op)
        conn.send({"ok": out.ok, "cls": out.cls, "exc": out.exc_name, "msg": out.msg,
                   "cid": getattr(out.value, "cid", None) if out.ok else None})
    except BaseException as err:  # noqa
        try:
            conn.send({"harness_error": repr(err)[:300]})
        except Exception:  # noqa
            pass
    finally:
        os._exit(0)


def okey(op, d):
    if d.get("ok"):
        return ("ok", d.get("cid")) if op["op"] == "store" else ("ok",)
    if d.get("cls") in ("already_exists", "mismatch", "in_progress"):
        return ("err", d["cls"])
    return ("err", d.get("exc"))


class PauseRace:
    def __init__(self, scratch, start, op_a, op_b, contents, docs, pids, fmts, cfg):
        self.scratch = scratch
        self.start, self.op_a, self.op_b = start, op_a, op_b
        self.contents, self.docs, self.pids, self.fmts, self.cfg = contents, docs, list(pids), list(fmts), cfg
        self.layout = absstate.Layout(cfg["depth"], cfg["width"], cfg["algo"], cfg["ns"])
        self.template = os.path.join(scratch, "template")
        self.rundir = os.path.join(scratch, "run")
        self.datadir = os.path.join(scratch, "data")
        os.makedirs(self.datadir, exist_ok=True)
        w = World(scratch, contents, docs, pids=pids, fmts=fmts, store_dir="template", datadir=self.datadir, **cfg)
        for op in start:
            o, _e = w.execute(op)
            if not o.ok:
                raise Inconclusive(f"start op failed: {op} {o.brief()}")
        for c in contents:
            w.data_path(c)
        for d in docs:
            w.data_path(d, w.docs)
        self.paths = dict(w._paths)
        self.spec = self._sequential()

    def _abs(self, root):
        return absstate.abstract(root, self.layout, self.pids, [(p, f) for p in self.pids for f in self.fmts]).key()

    def _fresh(self):
        shutil.rmtree(self.rundir, ignore_errors=True)
        shutil.copytree(self.template, self.rundir)

    def _sequential(self):
        spec = set()
        for order in ((self.op_a, self.op_b, False), (self.op_b, self.op_a, True)):
            self._fresh()
            st = open_store(self.rundir, **self.cfg)
            env = World(self.scratch, self.contents, self.docs, pids=self.pids, fmts=self.fmts, store_dir="run", store=st,
                        datadir=self.datadir, **self.cfg)
            env._paths = dict(self.paths)
            outs = []
            for op in order[:2]:
                o, _e = env.execute(op)
                outs.append(okey(op, {"ok": o.ok, "cls": o.cls, "exc": o.exc_name, "cid": getattr(o.value, "cid", None) if o.ok else None}))
            if order[2]:
                outs.reverse()
            spec.add((tuple(outs), self._abs(self.rundir)))
        return spec

    def count_sites(self):
        """Number of shared mutating operations of A when it runs alone."""
        self._fresh()
        st = self._open_mp()
        env = World(self.scratch, self.contents, self.docs, pids=self.pids, fmts=self.fmts, store_dir="run", store=st,
                    datadir=self.datadir, **self.cfg)
        env._paths = dict(self.paths)
        ctl = PauseAt(self.rundir, 10 ** 9, lambda: None)
        probe.install()
        probe.set_controller(ctl)
        try:
            env.execute(self.op_a)
        finally:
            probe.clear_controller()
        self._close(st)
        return ctl.n + 1

    def _open_mp(self):
        os.environ["USE_MULTIPROCESSING"] = "True"
        try:
            return open_store(self.rundir, **self.cfg)
        finally:
            os.environ["USE_MULTIPROCESSING"] = "False"

    @staticmethod
    def _close(st):
        # stop the manager server of this instance, if it has one we can see (processes are also reaped at exit)
        seen = set()

        def visit(obj, depth):
            try:
                vals = list(vars(obj).values())
            except TypeError:
                return
            for v in vals:
                if id(v) in seen:
                    continue
                seen.add(id(v))
                mod = type(v).__module__ or ""
                sd = getattr(v, "shutdown", None)
                if callable(sd) and mod.startswith("multiprocessing"):
                    try:
                        sd()
                    except Exception:  # noqa
                        pass
                elif depth < 2 and mod.split(".")[0] == "hashstore" and not isinstance(v, type):
                    visit(v, depth + 1)
        visit(st, 0)

    def run(self, site):
        """Returns dict(paused_at, child_finished_during_pause, outcomes, final_in_spec, ...)."""
        import multiprocessing
        ctx = multiprocessing.get_context("fork")
        self._fresh()
        st = self._open_mp()
        parent_conn, child_conn = ctx.Pipe(duplex=True)
        dump_path = os.path.join(self.scratch, f"hang-{os.getpid()}-{time.monotonic_ns()}.txt")
        child = ctx.Process(target=_child_main, args=(child_conn, self.scratch, self.contents, self.docs, self.pids, self.fmts,
                                                      self.cfg, st, self.datadir, self.paths, self.op_b, dump_path), daemon=True)
        child.start()
        child_conn.close()
        state = {"during": None, "reply": None}

        def on_pause():
            parent_conn.send("go")
            if parent_conn.poll(WAIT):
                state["reply"] = parent_conn.recv()
                state["during"] = True
            else:
                state["during"] = False
        env = World(self.scratch, self.contents, self.docs, pids=self.pids, fmts=self.fmts, store_dir="run", store=st,
                    datadir=self.datadir, **self.cfg)
        env._paths = dict(self.paths)
        ctl = PauseAt(self.rundir, site, on_pause)
        probe.install()
        probe.set_controller(ctl)
        try:
            out_a, _e = env.execute(self.op_a)
        finally:
            probe.clear_controller()
        if ctl.fired is None:
            parent_conn.send("go")          # A had fewer sites: let the child run anyway, sequentially after A
        hung = False
        if state["reply"] is None:
            if parent_conn.poll(60):
                state["reply"] = parent_conn.recv()
            else:
                # judged by state, not by time alone: the child must be found parked in a wait() of the store
                import signal
                hung = "unknown"
                try:
                    os.kill(child.pid, signal.SIGUSR1)
                    time.sleep(0.4)
                    with open(dump_path) as fh:
                        tb = fh.read()
                    if "filehashstore.py" in tb and (" in wait" in tb or " in acquire" in tb or " in __enter__" in tb):
                        hung = "parked-in-wait"
                except (OSError, ProcessLookupError):
                    pass
        child.join(5)
        if child.is_alive():
            child.kill()
            child.join(5)
        try:
            parent_conn.close()
        except OSError:
            pass
        final = self._abs(self.rundir)
        self._close(st)
        try:
            os.remove(dump_path)
        except OSError:
            pass
        res = {"paused_at": ctl.fired, "child_finished_during_pause": state["during"], "child_hung": hung,
               "a": out_a.brief(), "b": state["reply"]}
        if hung or state["reply"] is None or "harness_error" in (state["reply"] or {}):
            return res
        ka = okey(self.op_a, {"ok": out_a.ok, "cls": out_a.cls, "exc": out_a.exc_name,
                              "cid": getattr(out_a.value, "cid", None) if out_a.ok else None})
        kb = okey(self.op_b, state["reply"])
        res["okeys"] = [list(ka), list(kb)]
        same_pid_stores = (self.op_a["op"] == "store" and self.op_b["op"] == "store"
                           and self.op_a.get("pid") is not None and self.op_a.get("pid") == self.op_b.get("pid"))
        if same_pid_stores and ("err", "in_progress") in (ka, kb) and ka != kb:
            # the one extra outcome the statement permits: the rejected store did not happen, the other one stands alone
            alone = self._alone(self.op_b if ka == ("err", "in_progress") else self.op_a)
            other = kb if ka == ("err", "in_progress") else ka
            res["in_progress_rejection"] = True
            res["in_spec"] = (other, final) == alone
            res["outcomes_in_spec"] = other == alone[0]
            return res
        res["in_spec"] = ((ka, kb), final) in self.spec
        res["outcomes_in_spec"] = any(s[0] == (ka, kb) for s in self.spec)
        return res

    def _alone(self, op):
        key = repr(sorted(op.items(), key=lambda kv: kv[0]))
        if key not in getattr(self, "_alone_cache", {}):
            self._fresh()
            st = open_store(self.rundir, **self.cfg)
            env = World(self.scratch, self.contents, self.docs, pids=self.pids, fmts=self.fmts, store_dir="run", store=st,
                        datadir=self.datadir, **self.cfg)
            env._paths = dict(self.paths)
            o, _e = env.execute(op)
            k = okey(op, {"ok": o.ok, "cls": o.cls, "exc": o.exc_name, "cid": getattr(o.value, "cid", None) if o.ok else None})
            self._alone_cache = dict(getattr(self, "_alone_cache", {}))
            self._alone_cache[key] = (k, self._abs(self.rundir))
        return self._alone_cache[key]
