"""File-system and lock interposition (DESIGN.md 3.1).

Wrappers are installed once per process on the module objects (os, builtins, io, _io, fcntl), so
calls issued inside shutil / tempfile / pathlib resolve to them as well. They are inert unless the
calling thread has a controller attached (thread-local) and is not already inside the probe.

A controller implements
    pre(op)            - may record, yield to a scheduler, raise an injected OSError, or os._exit()
    post(op, error)    - runs after the real call returned or raised
"""

import _io
import builtins
import errno
import fcntl
import io
import os
import threading

_tls = threading.local()
_installed = False
_real = {}

MUTATING = {"create", "wopen", "rename", "remove", "mkdir", "rmdir", "chmod", "truncate", "link",
            "flush-before-truncate", "close-write"}


class Op:
    __slots__ = ("kind", "func", "path", "path2", "mode", "fd", "seq", "thread", "partial")

    def __init__(self, kind, func, path=None, path2=None, mode=None, fd=None):
        self.kind = kind
        self.func = func
        self.path = None if path is None else _fs(path)
        self.path2 = None if path2 is None else _fs(path2)
        self.mode = mode
        self.fd = fd
        self.seq = None
        self.thread = None
        self.partial = None     # for descriptor-level writes: callable that performs only the first half

    def rel(self, root):
        def r(p):
            if p is None:
                return None
            if p == root:
                return "."
            if p.startswith(root + os.sep):
                return p[len(root) + 1:]
            return "<outside>" + p
        a = r(self.path)
        return a if self.path2 is None else f"{a} -> {r(self.path2)}"

    def describe(self, root=""):
        return f"{self.kind}:{self.func}:{self.rel(root) if root else self.path}"


def _fs(p):
    if isinstance(p, int):
        return f"<fd {p}>"
    try:
        p = os.fspath(p)
    except TypeError:
        return repr(p)
    if isinstance(p, bytes):
        p = os.fsdecode(p)
    return os.path.abspath(p)


def set_controller(ctl):
    _tls.ctl = ctl
    _tls.busy = 0


def clear_controller():
    _tls.ctl = None


def current_controller():
    return getattr(_tls, "ctl", None)


class suspended:
    """Context manager: run harness code inside a controlled thread without interception."""

    def __enter__(self):
        _tls.busy = getattr(_tls, "busy", 0) + 1

    def __exit__(self, *a):
        _tls.busy -= 1


def _active():
    ctl = getattr(_tls, "ctl", None)
    if ctl is None or getattr(_tls, "busy", 0):
        return None
    return ctl


def _run(op, real, args, kwargs):
    ctl = _active()
    if ctl is None:
        return real(*args, **kwargs)
    _tls.busy += 1
    try:
        ctl.pre(op)
    finally:
        _tls.busy -= 1
    try:
        result = real(*args, **kwargs)
    except BaseException as err:
        _tls.busy += 1
        try:
            ctl.post(op, err)
        finally:
            _tls.busy -= 1
        raise
    _tls.busy += 1
    try:
        ctl.post(op, None)
    finally:
        _tls.busy -= 1
    return result


def _wrap_path1(name, kind, real):
    import sys as _sys

    def w(path, *a, **k):
        if _active() is None or isinstance(path, int):
            return real(path, *a, **k)
        kd = kind
        if name == "os.stat":
            # os.path.getsize() is the one stat whose failure is NOT reported as 'absent' but raised to the caller
            try:
                if _sys._getframe(1).f_code.co_name == "getsize":
                    kd = "getsize"
            except ValueError:
                pass
        return _run(Op(kd, name, path), real, (path,) + a, k)
    w.__name__ = real.__name__
    w.__wrapped__ = real
    return w


def _wrap_path2(name, kind, real):
    def w(src, dst, *a, **k):
        if _active() is None:
            return real(src, dst, *a, **k)
        return _run(Op(kind, name, src, dst), real, (src, dst) + a, k)
    w.__name__ = real.__name__
    w.__wrapped__ = real
    return w


def _os_open(path, flags, mode=0o777, *a, **k):
    real = _real["os.open"]
    if _active() is None:
        return real(path, flags, mode, *a, **k)
    acc = flags & os.O_ACCMODE
    if flags & os.O_CREAT:
        kind = "create"
    elif acc in (os.O_WRONLY, os.O_RDWR) or flags & (os.O_TRUNC | os.O_APPEND):
        kind = "wopen"
    else:
        kind = "ropen"
    return _run(Op(kind, "os.open", path, mode=flags), real, (path, flags, mode) + a, k)


class FileProxy:
    """Thin proxy around a file object opened for writing on a shared store path, so that the
    points 'buffer flushed but not yet truncated' and 'about to close (buffer flush + lock
    release)' become visible to controllers."""

    def __init__(self, f, path, mode):
        object.__setattr__(self, "_f", f)
        object.__setattr__(self, "_path", path)
        object.__setattr__(self, "_mode", mode)
        object.__setattr__(self, "_closed_reported", False)

    def __getattr__(self, name):
        return getattr(self._f, name)

    def __setattr__(self, name, value):
        setattr(self._f, name, value)

    def __iter__(self):
        return iter(self._f)

    def __next__(self):
        return next(self._f)

    def __enter__(self):
        self._f.__enter__()
        return self

    def __exit__(self, *exc):
        self.close()
        return False

    def _resolve_path(self):
        p = object.__getattribute__(self, "_path")
        if p is None:
            try:
                p = os.readlink(f"/proc/self/fd/{self._f.fileno()}")
            except Exception:  # noqa
                p = "<unknown>"
            object.__setattr__(self, "_path", p)
        return p

    def write(self, data):
        ctl = _active()
        if ctl is None or not getattr(ctl, "wants_write_ops", False):
            return self._f.write(data)
        return _run(Op("write", "file.write", self._resolve_path()), self._f.write, (data,), {})

    def writelines(self, lines):
        ctl = _active()
        if ctl is None or not getattr(ctl, "wants_write_ops", False):
            return self._f.writelines(lines)
        return _run(Op("write", "file.writelines", self._resolve_path()), self._f.writelines, (lines,), {})

    def truncate(self, size=None):
        ctl = _active()
        if ctl is None:
            return self._f.truncate(size) if size is not None else self._f.truncate()
        self._f.flush()
        op = Op("flush-before-truncate", "file.truncate", self._resolve_path())
        return _run(op, (lambda: self._f.truncate(size) if size is not None else self._f.truncate()), (), {})

    def close(self):
        if self._f.closed:
            return None
        ctl = _active()
        if ctl is None:
            return self._f.close()
        try:
            fd = self._f.fileno()
        except Exception:  # noqa
            fd = None
        op = Op("close-write", "file.close", self._resolve_path(), fd=fd)
        return _run(op, self._f.close, (), {})


def _open_wrapper(real, fname):
    def w(file, mode="r", *a, **k):
        ctl = _active()
        if ctl is not None and k.get("opener") is not None and getattr(ctl, "wants_write_ops", False):
            # tempfile.NamedTemporaryFile: the creating os.open happens inside the opener (intercepted there); the
            # file object is wrapped so that writes of the staged data become visible operations
            f = real(file, mode, *a, **k)
            return FileProxy(f, None, mode if isinstance(mode, str) else "w+b")
        if ctl is None or isinstance(file, int) or k.get("opener") is not None:
            return real(file, mode, *a, **k)
        m = mode if isinstance(mode, str) else "r"
        writing = any(c in m for c in "wax+")
        if "x" in m:
            kind = "create"
        elif writing:
            kind = "wopen"
        else:
            kind = "ropen"
        op = Op(kind, fname, file, mode=m)
        f = _run(op, real, (file, mode) + a, k)
        if writing and ctl.wants_proxy(op):
            return FileProxy(f, op.path, m)
        return f
    w.__name__ = "open"
    w.__wrapped__ = real
    return w


def _flock(fd, operation):
    real = _real["fcntl.flock"]
    ctl = _active()
    if ctl is None:
        return real(fd, operation)
    n = fd if isinstance(fd, int) else fd.fileno()
    try:
        path = os.readlink(f"/proc/self/fd/{n}")
    except OSError:
        path = f"<fd {n}>"
    op = Op("lock", "fcntl.flock", path, mode=operation, fd=n)
    handler = getattr(ctl, "flock", None)
    if handler is not None:
        # the controller implements the (possibly blocking) lock itself
        _tls.busy += 1
        try:
            ctl.pre(op)
            return handler(op, real, n, operation)
        finally:
            _tls.busy -= 1
    return _run(op, real, (fd, operation), {})


def _fd_path(fd):
    try:
        return os.readlink(f"/proc/self/fd/{fd}")
    except OSError:
        return f"<fd {fd}>"


def _wrap_fd_write(name, real, kind="write", out_index=0, halver=None):
    """Descriptor-level writers (os.write, os.pwrite, os.writev, os.sendfile, os.copy_file_range, os.ftruncate):
    visible to controllers that ask for write operations, for descriptors open on a file under the controller's
    root. These bypass Python's file objects (shutil's fast copy, a hand-written unbuffered writer)."""
    def w(*a, **k):
        ctl = _active()
        if ctl is None or not getattr(ctl, "wants_write_ops", False) or len(a) <= out_index or not isinstance(a[out_index], int):
            return real(*a, **k)
        path = _fd_path(a[out_index])
        root = getattr(ctl, "root", None)
        if root is not None and not under(root, path):
            return real(*a, **k)
        op = Op(kind, name, path, fd=a[out_index])
        if halver is not None:
            op.partial = lambda: halver(real, a, k)
        return _run(op, real, a, k)
    w.__name__ = real.__name__
    w.__wrapped__ = real
    return w


def _half_write(real, a, k):
    data = bytes(a[1])
    if len(data) >= 2:
        real(a[0], data[:len(data) // 2], *a[2:], **k)


def _half_sendfile(real, a, k):
    # os.sendfile(out_fd, in_fd, offset, count)
    if len(a) >= 4 and isinstance(a[3], int):
        try:
            size = os.fstat(a[1]).st_size
        except OSError:
            size = a[3]
        n = min(a[3], size) // 2
        if n > 0:
            real(a[0], a[1], a[2], n)


def install():
    """Idempotent. Must be called before the code under test runs in a controlled thread."""
    global _installed
    if _installed:
        return
    _installed = True
    table = [
        ("stat", "probe", 1), ("lstat", "probe", 1), ("listdir", "listdir", 1), ("scandir", "listdir", 1),
        ("remove", "remove", 1), ("unlink", "remove", 1), ("mkdir", "mkdir", 1), ("rmdir", "rmdir", 1),
        ("chmod", "chmod", 1), ("truncate", "truncate", 1), ("rename", "rename", 2), ("replace", "rename", 2),
        ("link", "link", 2), ("symlink", "link", 2),
    ]
    for name, kind, ar in table:
        real = getattr(os, name)
        _real["os." + name] = real
        setattr(os, name, (_wrap_path1 if ar == 1 else _wrap_path2)("os." + name, kind, real))
    _real["os.open"] = os.open
    os.open = _os_open
    real_open = _io.open
    _real["open"] = real_open
    w = _open_wrapper(real_open, "open")
    builtins.open = w
    io.open = w
    _io.open = w
    _real["fcntl.flock"] = fcntl.flock
    fcntl.flock = _flock
    for name, kind, idx, halver in (("write", "write", 0, _half_write), ("pwrite", "write", 0, _half_write),
                                    ("writev", "write", 0, None), ("sendfile", "write", 0, _half_sendfile),
                                    ("copy_file_range", "write", 1, None), ("ftruncate", "truncate", 0, None)):
        if hasattr(os, name):
            real_fn = getattr(os, name)
            _real["os." + name] = real_fn
            setattr(os, name, _wrap_fd_write("os." + name, real_fn, kind, idx, halver))
    import time as _time
    _real["time.sleep"] = _time.sleep

    def _sleep(seconds):
        ctl = _active()
        handler = getattr(ctl, "on_sleep", None) if ctl is not None else None
        if handler is None:
            return _real["time.sleep"](seconds)
        _tls.busy += 1
        try:
            return handler(seconds)
        finally:
            _tls.busy -= 1
    _time.sleep = _sleep


def real(name):
    return _real[name]


# --------------------------------------------------------------------------- basic controllers

class Recorder:
    """Records every intercepted operation of the calling thread (no interference)."""

    wants_write_ops = True

    def __init__(self, root):
        self.root = os.path.abspath(str(root))
        self.ops = []

    def wants_proxy(self, op):
        return under(self.root, op.path)

    def pre(self, op):
        op.seq = len(self.ops)
        self.ops.append(op)

    def post(self, op, error):
        pass


def under(root, path):
    return path is not None and (path == root or path.startswith(root + os.sep))


_HEX = set("0123456789abcdefABCDEF")


def staging_name(name):
    """A directory directly under objects/, metadata/ or refs/ that cannot be part of a permanent address: permanent
    addresses are made of hexadecimal shard tokens (and refs/pids, refs/cids). Today that directory is called 'tmp';
    the harness does not depend on the name."""
    return name not in ("pids", "cids") and bool(name) and not set(name) <= _HEX


def is_private_tmp(root, path):
    """A thread-private staging file: <root>/{objects,metadata,refs}/<staging dir>/<name>."""
    if not under(root, path):
        return False
    rel = path[len(root) + 1:].split(os.sep)
    return len(rel) == 3 and rel[0] in ("objects", "metadata", "refs") and staging_name(rel[1])


def is_shared_store_path(root, path):
    return under(root, path) and not is_private_tmp(root, path)


def op_is_shared(root, op):
    """An operation other threads can observe or be affected by."""
    if op.kind == "lock":
        return under(root, op.path)
    if op.path2 is not None:
        return is_shared_store_path(root, op.path) or is_shared_store_path(root, op.path2)
    return is_shared_store_path(root, op.path)


def errno_error(code, op):
    return OSError(code, os.strerror(code) + " (injected by hsverif)", op.path)
