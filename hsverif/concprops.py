"""Shared driver and scenario menus for the controlled-concurrency properties (C07, C08, C12, C16)."""

import itertools
import os
import random

from . import concengine as C
from .common import new_scratch, rmtree, Inconclusive, clear_atexit_tmp_handlers
from .gen import op_shape
from .runner import ShardResult

SPEC = {"X": {"cseed": 701, "size": 5000}, "Y": {"cseed": 702, "size": 90}}
DOCS = {"v1": {"cseed": 711, "size": 40}, "v2": {"cseed": 712, "size": 9000}}


def st(pid, c, **kw):
    d = {"op": "store", "pid": pid, "content": c, "kind": "path"}
    d.update(kw)
    return d


def tag(pid, c):
    return {"op": "tag", "pid": pid, "cid": ["of", c]}


def dele(pid):
    return {"op": "delete", "pid": pid}


def dii(c, ok=True):
    return {"op": "dii", "content": c, "checksum": "ok" if ok else "wrong", "calgo": "sha256", "size": "ok"}


OBJECT_STARTS = {
    "empty": [],
    "p1->X": [st("p1", "X")],
    "p1,p2->X": [st("p1", "X"), st("p2", "X")],
    "X-unreferenced": [st(None, "X")],
    "p1->missing": [tag("p1", "X")],
    "p1,p2->missing": [tag("p1", "X"), tag("p2", "X")],
}

OBJECT_MENU = [
    st("p1", "X"), st("p2", "X"), st("p1.v2", "X"), st("p1", "Y"),
    st("p1", "X", checksum="wrong", calgo="md5"), st(None, "X"),
    tag("p1", "X"), tag("p2", "X"), tag("p1.v2", "X"), tag("p1", "Y"),
    dele("p1"), dele("p2"), dii("X", True), dii("X", False),
]


def call_name(op):
    k = op["op"]
    if k == "store":
        extra = ",wrongsum" if op.get("checksum") == "wrong" else ""
        return f"store({op.get('pid')},{op['content']}{extra})"
    if k == "tag":
        return f"tag({op['pid']},{op['cid'][1]})"
    if k == "delete":
        return f"delete({op['pid']})"
    if k == "dii":
        return f"dii({op['content']},{'ok' if op['checksum'] == 'ok' else 'wrong'})"
    if k == "smeta":
        return f"smeta({op['pid']},{op.get('fmt')},{op['doc']})"
    if k in ("rmeta", "dmeta"):
        return f"{k}({op['pid']},{op.get('fmt')})"
    return k


def touches(op, start_ops):
    """Identifiers (pids, contents) a call may touch, including through the start state."""
    ids = set()
    if op.get("pid"):
        ids.add(("pid", op["pid"]))
    if op["op"] in ("store", "dii"):
        ids.add(("c", op["content"]))
    if op["op"] == "tag":
        ids.add(("c", op["cid"][1]))
    if op["op"] == "delete":
        for s in start_ops:
            if s.get("pid") == op["pid"]:
                ids.add(("c", s.get("content") or s["cid"][1]))
    return ids


def object_pair_scenarios(mode="th"):
    out = []
    for sname, start in OBJECT_STARTS.items():
        for a, b in itertools.combinations_with_replacement(range(len(OBJECT_MENU)), 2):
            oa, ob = OBJECT_MENU[a], OBJECT_MENU[b]
            related = bool(touches(oa, start) & touches(ob, start))
            control = (a, b) in ((0, 11), (3, 11), (9, 11))     # a few independent pairs as controls
            if not (related or control):
                continue
            name = f"{sname}|{call_name(oa)}||{call_name(ob)}"
            out.append(C.Scenario(name, start, [oa, ob], SPEC, pids=["p1", "p2", "p1.v2"], mode=mode, start_class=sname))
    return out


def object_triple_scenarios(rng, n, mode="th"):
    out = []
    names = list(OBJECT_STARTS)
    while len(out) < n:
        sname = rng.choice(names)
        start = OBJECT_STARTS[sname]
        ops = [rng.choice(OBJECT_MENU) for _ in range(3)]
        ids = [touches(o, start) for o in ops]
        if not (ids[0] & ids[1] or ids[1] & ids[2] or ids[0] & ids[2]):
            continue
        name = f"{sname}|" + "||".join(call_name(o) for o in ops)
        out.append(C.Scenario(name, start, ops, SPEC, pids=["p1", "p2", "p1.v2"], mode=mode, start_class=sname))
    return out


def object_wakeup_triples(mode="th"):
    """Two calls that contend for ONE identifier plus a third call on an UNRELATED identifier that shares their
    condition variable: its release notifies, and a waiter that does not re-check its predicate walks into a section
    that is still held (every condition of the store is shared by all identifiers of its kind)."""
    T = [
        ("X-unreferenced", [tag("p1", "X"), tag("p2", "X"), tag("p1.v2", "Y")]),
        ("empty", [tag("p1", "X"), tag("p2", "X"), tag("p1.v2", "Y")]),
        ("empty", [st("p1", "X"), st("p2", "X"), st("p1.v2", "Y")]),
        ("p1,p2->X", [dele("p1"), dele("p2"), tag("p1.v2", "Y")]),
        ("p1,p2->X", [dele("p1"), dele("p2"), st("p1.v2", "Y")]),
        ("p1->X", [st("p2", "X"), dele("p1"), st("p1.v2", "Y")]),
        ("empty", [tag("p1", "X"), tag("p1", "Y"), tag("p2", "X")]),
        ("p1->X", [st("p1", "Y"), dele("p1"), st("p2", "Y")]),
        ("X-unreferenced", [tag("p1", "X"), dii("X", False), st("p2", "Y")]),
    ]
    out = []
    for sname, ops in T:
        name = f"{sname}|" + "||".join(call_name(o) for o in ops) + "|third-party"
        out.append(C.Scenario(name, OBJECT_STARTS[sname], ops, SPEC, pids=["p1", "p2", "p1.v2"], mode=mode, start_class=sname))
    return out


# ---------------------------------------------------------------- metadata scenarios (C12)

def sm(fmt, doc):
    return {"op": "smeta", "pid": "p1", "fmt": fmt, "doc": doc, "kind": "path"}


def rm(fmt):
    return {"op": "rmeta", "pid": "p1", "fmt": fmt, "chunked": True}


def dm(fmt):
    return {"op": "dmeta", "pid": "p1", "fmt": fmt}


META_MENU = [sm("f1", "v1"), sm("f1", "v2"), sm("f2", "v1"), rm("f1"), dm("f1"), dm(None), dele("p1"), sm(None, "v2"), rm(None)]
META_STARTS = {
    "absent/unbound": [],
    "absent/bound": [st("p1", "X")],
    "present/unbound": [sm("f1", "v1"), sm(None, "v1")],
    "present/bound": [st("p1", "X"), sm("f1", "v1"), sm("f2", "v2")],
}


def meta_pair_scenarios(mode="th"):
    out = []
    for sname, start in META_STARTS.items():
        for a, b in itertools.combinations_with_replacement(range(len(META_MENU)), 2):
            oa, ob = META_MENU[a], META_MENU[b]
            if oa["op"] == "rmeta" and ob["op"] == "rmeta":
                continue
            name = f"{sname}|{call_name(oa)}||{call_name(ob)}"
            out.append(C.Scenario(name, start, [oa, ob], SPEC, DOCS, pids=["p1"], fmts=[None, "f1", "f2", "followup"],
                                  mode=mode, start_class=sname))
    return out


def meta_triple_scenarios(rng, n, mode="th"):
    out = []
    names = list(META_STARTS)
    while len(out) < n:
        sname = rng.choice(names)
        ops = [rng.choice(META_MENU) for _ in range(3)]
        if sum(1 for o in ops if o["op"] == "rmeta") > 1:
            continue
        name = f"{sname}|" + "||".join(call_name(o) for o in ops)
        out.append(C.Scenario(name, META_STARTS[sname], ops, SPEC, DOCS, pids=["p1"], fmts=[None, "f1", "f2", "followup"],
                              mode=mode, start_class=sname))
    return out


def meta_wakeup_triples(mode="th"):
    """The same for metadata documents: two calls on one document, a third on another document of the same pid."""
    T = [
        ("absent/unbound", [sm("f1", "v1"), sm("f1", "v2"), sm("f2", "v1")]),
        ("present/bound", [sm("f1", "v1"), sm("f1", "v2"), sm("f2", "v1")]),
        ("present/bound", [dm("f1"), sm("f1", "v2"), sm("f2", "v1")]),
        ("present/bound", [dm("f1"), dm("f1"), dm("f2")]),
        ("present/bound", [sm("f1", "v2"), dm(None), sm("f2", "v1")]),
        ("present/unbound", [dm(None), dm(None), sm("f2", "v2")]),
    ]
    out = []
    for sname, ops in T:
        if sname not in META_STARTS:
            continue
        name = f"{sname}|" + "||".join(call_name(o) for o in ops) + "|third-party"
        out.append(C.Scenario(name, META_STARTS[sname], ops, SPEC, DOCS, pids=["p1"], fmts=[None, "f1", "f2", "followup"],
                              mode=mode, start_class=sname))
    return out


# ---------------------------------------------------------------- shard driver

def run_scenarios(scn_jsons, bound, n_random, pct, sub_seed, symptoms, budget=None, extra_judge=None,
                  observer_factory=None, normalise=None, n_line=0, skip_dfs=False, n_sync=0):
    """Explore every scenario; report the symptoms listed in `symptoms` (others -> foreign)."""
    res = ShardResult()
    rng = random.Random(sub_seed)
    traces = set()
    finals = set()
    for sj in scn_jsons:
        scn = C.Scenario.from_json(sj)
        scratch = new_scratch("conc")
        try:
            runner = C.ScenarioRunner(scn, scratch, observer_factory=observer_factory)
            res.count("scenarios")
            sample_done = False
            import itertools as _it
            streams = []
            if not skip_dfs:
                streams.append(C.explore(runner, bound, budget=budget, rng=rng, n_random=n_random, pct=pct, normalise=normalise))
            if n_sync:
                streams.append(C.explore_sync_focus(runner, rng, n_sync, normalise=normalise))
            if n_line:
                streams.append(C.explore_line_level(runner, rng, n_line, normalise=normalise))
            for ob, probs, new in _it.chain(*streams):
                res.evaluations += 1
                res.count("schedules")
                res.count("yield_points", ob.yield_points)
                if ob.line_points:
                    res.count("statement_level_yield_points", ob.line_points)
                    res.count("statement_level_schedules")
                res.count("reader_observations", sum(1 for o in scn.calls if o["op"] in ("rmeta", "retrieve")))
                if new:
                    res.distinct.add(str(hash((scn.name, tuple(ob.trace)))))
                finals.add(hash((scn.name, ob.final_key, ob.okeys)))
                if any(st_["wait"] for st_ in ob.cond_stats.values()):
                    res.count("schedules_with_a_waiting_thread")
                if extra_judge:
                    probs = probs + extra_judge(runner, ob)
                for symptom, detail in probs:
                    if symptom in symptoms:
                        res.violation(C.signature(runner, ob, symptom, detail), C.witness(runner, ob, symptom, detail))
                    else:
                        res.foreign[symptom] = res.foreign.get(symptom, 0) + 1
                if not sample_done and len(res.samples) < 2 and len(ob.trace) > 10:
                    res.sample({"scenario": scn.name, "schedule": "".join(map(str, ob.trace)),
                                "outcomes": [o.brief() if o else None for o in ob.outcomes],
                                "first_events": [f"T{t}:{d}" for t, d in ob.events[:6]]})
                    sample_done = True
            res.count("sequential_specs", len(runner._seqspec))
        except Inconclusive as inc:
            res.inconclusive.append(f"{scn.name}: {inc}")
        finally:
            rmtree(scratch)
            clear_atexit_tmp_handlers()
    res.counters["distinct_final_observations"] = finals
    return res


def replay_fault_witness(witness, judge_fn):
    """Re-run a recorded schedule with the recorded fault. judge_fn(runner, ob) -> [(symptom, detail)]."""
    from . import sched as S
    res = ShardResult()
    scn = C.Scenario.from_json(witness["scenario"])
    f = witness["fault"]
    scratch = new_scratch("concr")
    try:
        runner = C.ScenarioRunner(scn, scratch)
        ob = runner.run(S.PrefixChooser(witness["schedule"]), fault=(f["worker"], f["site"], f.get("errno", 5), bool(f.get("persistent"))))
        print("scenario:", scn.name, "| fault:", f, "| fired at:", ob.fault_fired)
        print("schedule:", "".join(map(str, ob.trace)))
        print("outcomes:", [o.brief() if o else None for o in ob.outcomes])
        print("final:", ob.final.describe())
        for symptom, detail in judge_fn(runner, ob):
            print("problem:", symptom, detail)
            w = C.witness(runner, ob, symptom, detail)
            w["fault"] = f
            res.violation({"symptom": symptom, "replayed": True}, w)
        res.evaluations = 1
    finally:
        rmtree(scratch)
    return res


def replay_witness(witness, symptoms, normalise=None):
    from . import sched as S
    res = ShardResult()
    scn = C.Scenario.from_json(witness["scenario"])
    scratch = new_scratch("concr")
    try:
        runner = C.ScenarioRunner(scn, scratch)
        ob = runner.run(S.PrefixChooser(witness["schedule"]))
        print("scenario:", scn.name)
        print("schedule:", "".join(map(str, ob.trace)))
        for t, d in ob.events:
            print(f"   T{t}: {d}")
        print("outcomes:", [o.brief() if o else None for o in ob.outcomes])
        print("final:", ob.final.describe())
        print("sequential spec:")
        for (ok, _fk), order in runner.seqspec(list(range(len(scn.calls)))).items():
            print("   order", order, "->", ok)
        for symptom, detail in C.judge(runner, ob, normalise):
            print("problem:", symptom, detail)
            if symptom in symptoms:
                res.violation(C.signature(runner, ob, symptom, detail), C.witness(runner, ob, symptom, detail))
        res.evaluations = 1
    finally:
        rmtree(scratch)
    return res
