"""C09 - permanent files are never observable half-written."""

import hashlib
import random

from ..absstate import permanent_kind
from ..probe import staging_name
from .. import faultengine as F
from .. import concprops as P
from .. import concengine as C
from ..absstate import Layout
from ..common import ncpu, split_seeds, new_scratch, rmtree, Inconclusive, clear_atexit_tmp_handlers, jsonable, DEFAULT_NS
from ..gen import chunk, op_shape, make_content
from ..runner import ShardResult

ID = "C09"
LEVEL = "fault_enumeration"
RULE = ("(a) single calls: the 29 (start state, call) cases of C13/C10 plus store_object of contents of 0, 1, "
        "buffer+1 and 5*buffer bytes and metadata overwrites v1->v2 / v2->v1 of different lengths; an observer runs "
        "after EVERY intercepted file-system operation of the writer (including the flush half of in-place "
        "truncates and buffer flushes at close) and reads every file at a permanent address the way a concurrent "
        "reader or a post-mortem inspector would (page cache = what a killed process leaves). (b) concurrent "
        "writers: object and metadata pair scenarios of C07/C12 under the cooperative scheduler with the observer "
        "after every shared operation of either thread. (c) thorough only: a free-running reader thread scanning "
        "the store while a writer thread stores / overwrites / deletes 0.3-4 MB objects and documents (reaches states "
        "strictly inside one system call). Oracle: every object file's digest equals its name; every "
        "metadata document is byte-for-byte one of the supplied versions; every pid reference is exactly one cid of "
        "the scenario; within one call a permanent address changes presence at most once (appears or disappears "
        "in a single step; an overwritten document is never absent); a staging file in a tmp directory is written by "
        "one call only (two threads opening the same staging file would publish a mixture). cid reference lists, *_delete names and the tmp "
        "directories are outside the statement. distinct_nontrivial = distinct (case or scenario, operation "
        "boundary) observation points.")
ASSUMPTIONS = ["observation points are operation boundaries; states strictly inside one C-level system call are reached "
               "only by the free-running reader of the thorough tier",
               "process death leaves the page cache intact"]
EXHAUSTIVE = {"quick": True, "thorough": True}
SYMPTOMS = {"object-content-differs-from-name", "metadata-document-not-a-supplied-version",
            "pid-ref-not-one-complete-cid", "permanent-address-flickers", "staging-file-shared-between-calls"}
WATCHDOG_S = 3600

EXTRA_CASES = [
    ("empty", {"op": "store", "pid": "s", "content": "E", "kind": "bytesio"}, "store 0 bytes from a stream"),
    ("empty", {"op": "store", "pid": "s", "content": "B1", "kind": "path"}, "store 1 byte"),
    ("empty", {"op": "store", "pid": "s", "content": "Z", "kind": "file"}, "store buffer+1 bytes from a file stream"),
    ("empty", {"op": "store", "pid": "s", "content": "B5", "kind": "path"}, "store 5 buffers"),
    ("p2->X,p3->Y+meta", {"op": "smeta", "pid": "p3", "fmt": None, "doc": "v2", "kind": "path"}, "overwrite v1 -> longer v2"),
    ("p2,p3->X+meta", {"op": "smeta", "pid": "p2", "fmt": "f1", "doc": "v3", "kind": "file"}, "overwrite v2 -> shorter v3"),
    ("p2->X,p3->Y+meta", {"op": "store", "pid": None, "content": "Z", "kind": "path"}, "store without pid"),
]


def shards(tier, seed):
    n = ncpu()
    base = len(F.CASES)
    for c in EXTRA_CASES:
        if c not in F.CASES:
            F.CASES.append(c)
    F.SPEC.setdefault("B1", {"cseed": 905, "size": 1})
    F.SPEC.setdefault("B5", {"cseed": 906, "size": 5 * 8192})
    idxs = list(range(len(F.CASES)))
    out = [("single", c, tier, s) for c, s in zip(chunk(idxs, n), split_seeds(seed + 9, n))]
    rng = random.Random(seed * 1000 + 9)
    objs = [s.to_json() for s in P.object_pair_scenarios()]
    metas = [s.to_json() for s in P.meta_pair_scenarios()]
    rng.shuffle(objs)
    rng.shuffle(metas)
    k = 48 if tier == "quick" else len(objs)
    sel = objs[:k] + metas[:k]
    for c, s in zip(chunk(sel, n), split_seeds(seed + 99, n)):
        out.append(("conc", c, tier, s))
    if tier == "thorough":
        # states strictly INSIDE one system call: a real reader thread scanning while a real writer thread works
        for s in split_seeds(seed + 909, n):
            out.append(("reader", 40, tier, s))
    return out


def min_required(tier):
    return {"observation_points": 3000, "permanent_files_read": 10000, "cases": 25}


def _ensure_cases():
    for c in EXTRA_CASES:
        if c not in F.CASES:
            F.CASES.append(c)
    F.SPEC.setdefault("B1", {"cseed": 905, "size": 1})
    F.SPEC.setdefault("B5", {"cseed": 906, "size": 5 * 8192})


def run_free_reader(rounds, sub_seed):
    """A writer thread stores / overwrites / deletes large objects and documents (free-running, OS-scheduled)
    while a reader thread keeps reading every permanent file."""
    import os
    import threading
    from ..absstate import walk_files
    from ..common import open_store, call
    res = ShardResult()
    rng = random.Random(sub_seed)
    scratch = new_scratch("obsf")
    lay = Layout(3, 2, "SHA-256", DEFAULT_NS)
    try:
        root = os.path.join(scratch, "store")
        st = open_store(root)
        blobs = [make_content(rng.getrandbits(30), rng.choice([300000, 1500000, 4000000])) for _ in range(4)]
        docs = [make_content(rng.getrandbits(30), rng.choice([200000, 900000])) for _ in range(3)]
        paths = []
        for i, b in enumerate(blobs + docs):
            p = os.path.join(scratch, f"in{i}")
            with open(p, "wb") as f:
                f.write(b)
            paths.append(p)
        valid_docs = {hashlib.sha256(d).hexdigest() for d in docs}
        valid_cids = {lay.cid_of(b) for b in blobs}
        stop = threading.Event()
        findings = []
        counters = {"scans": 0, "files": 0}

        def reader():
            while not stop.is_set():
                files, _d = walk_files(root)
                counters["scans"] += 1
                for rel, data in files.items():
                    parts = rel.split("/")
                    if permanent_kind(rel, lay) in (None, "config"):
                        continue
                    counters["files"] += 1
                    if parts[0] == "objects" and lay.cid_of(data) != "".join(parts[1:]):
                        findings.append(("object-content-differs-from-name", {"path": rel, "len": len(data)}))
                    elif parts[0] == "metadata" and hashlib.sha256(data).hexdigest() not in valid_docs:
                        findings.append(("metadata-document-not-a-supplied-version", {"path": rel, "len": len(data)}))
                    elif parts[0] == "refs" and parts[1] == "pids" and data.decode("utf-8", "replace") not in valid_cids:
                        findings.append(("pid-ref-not-one-complete-cid", {"path": rel, "content": data[:80].decode("utf-8", "replace")}))

        t = threading.Thread(target=reader, daemon=True)
        t.start()
        for r in range(rounds):
            i = rng.randrange(len(blobs))
            pid = f"pid{r % 5}"
            call(st.store_object, pid, paths[i])
            call(st.store_metadata, pid, paths[len(blobs) + rng.randrange(len(docs))])
            call(st.store_metadata, pid, paths[len(blobs) + rng.randrange(len(docs))])
            if rng.random() < 0.6:
                call(st.delete_object, pid)
        stop.set()
        t.join(30)
        res.evaluations = counters["files"]
        res.count("free_reader_scans", counters["scans"])
        res.count("permanent_files_read", counters["files"])
        res.count("observation_points", counters["scans"])
        res.distinct.add(f"free-reader:{sub_seed}")
        for symptom, detail in findings[:5]:
            res.violation({"symptom": symptom, "observer": "free-running reader thread", "where": _where_class(detail.get("path", ""))},
                          {"engine": "free-reader", "detail": jsonable(detail), "seed": sub_seed})
    finally:
        rmtree(scratch)
        clear_atexit_tmp_handlers()
    return res


def run_shard(kind, payload, tier, sub_seed):
    _ensure_cases()
    if kind == "reader":
        return run_free_reader(payload, sub_seed)
    res = ShardResult()
    if kind == "single":
        for ci in payload:
            scratch = new_scratch("obs")
            try:
                case = F.Case(ci, scratch)
                res.count("cases")
                out, obs = F.run_observed(case)
                if len(obs.ops) == 0 and case.ref_out.ok:
                    res.inconclusive.append(f"case {case.label}: no operation intercepted (probe bypassed?)")
                res.evaluations += obs.observations
                res.count("observation_points", obs.observations)
                res.count("permanent_files_read", obs.files_read)
                for i in range(obs.observations):
                    res.distinct.add(f"{ci}:{i}")
                problems = list(obs.findings)
                for rel, changes in obs.flicker():
                    problems.append(("permanent-address-flickers", {"path": rel, "presence_changes": changes}))
                for symptom, detail in problems:
                    sig = {"symptom": symptom, "call": op_shape(case.call), "case": case.label,
                           "where": _where_class(detail.get("path", ""))}
                    res.violation(sig, {"engine": "observe", "case_index": ci, "case": case.label, "call": case.call,
                                        "start": case.start_name, "detail": jsonable(detail)})
                if len(res.samples) < 2:
                    res.sample({"case": case.label, "boundaries_observed": obs.observations,
                                "permanent_files_read": obs.files_read, "ops": [o.describe(case.rundir) for o in obs.ops[:5]]})
                clear_atexit_tmp_handlers()
            except Inconclusive as inc:
                res.inconclusive.append(str(inc))
            finally:
                rmtree(scratch)
        return res
    # concurrent writers with the observer after every shared operation
    lay = Layout(3, 2, "SHA-256", DEFAULT_NS)
    rng = random.Random(sub_seed)

    def factory(runner, store):
        valid_docs = {hashlib.sha256(d).hexdigest() for d in runner.docs.values()}
        valid_cids = {lay.cid_of(c) for c in runner.contents.values()}
        return F.BoundaryObserver(runner.rundir, lay, valid_docs, valid_cids)

    for sj in payload:
        scn = C.Scenario.from_json(sj)
        scratch = new_scratch("obsc")
        try:
            runner = C.ScenarioRunner(scn, scratch, observer_factory=factory)
            res.count("scenarios")
            n = 0
            for ob, probs, new in C.explore(runner, 1 if tier == "quick" else 2, budget=12 if tier == "quick" else 300,
                                            rng=rng, n_random=4 if tier == "quick" else 20):
                n += 1
                res.count("schedules")
                res.count("observation_points", ob.observer_stats[0])
                res.count("permanent_files_read", ob.observer_stats[1])
                res.evaluations += ob.observer_stats[0]
                if new:
                    res.distinct.add(str(hash((scn.name, tuple(ob.trace)))))
                for symptom, detail in ob.observer_findings:
                    sig = {"symptom": symptom, "calls": sorted(op_shape(o) for o in scn.calls),
                           "where": _where_class(detail.get("path", ""))}
                    res.violation(sig, C.witness(runner, ob, symptom, detail))
                for symptom, detail in probs:
                    if symptom in SYMPTOMS:
                        res.violation({"symptom": symptom, "calls": sorted(op_shape(o) for o in scn.calls)},
                                      C.witness(runner, ob, symptom, detail))
                    else:
                        res.foreign[symptom] = res.foreign.get(symptom, 0) + 1
        except Inconclusive as inc:
            res.inconclusive.append(f"{scn.name}: {inc}")
        finally:
            rmtree(scratch)
            clear_atexit_tmp_handlers()
    return res


def _where_class(rel):
    parts = rel.split("/")
    if parts[0] == "refs" and len(parts) > 1:
        return "refs/" + parts[1]
    return parts[0]


def replay(witness):
    _ensure_cases()
    res = ShardResult()
    if witness.get("engine") == "observe":
        scratch = new_scratch("obsr")
        try:
            case = F.Case(witness["case_index"], scratch)
            out, obs = F.run_observed(case)
            print("case:", case.label, "->", out.brief(), "| boundaries observed:", obs.observations)
            problems = list(obs.findings) + [("permanent-address-flickers", {"path": r, "presence_changes": c}) for r, c in obs.flicker()]
            for symptom, detail in problems:
                print("problem:", symptom, jsonable(detail))
                res.violation({"symptom": symptom, "call": op_shape(case.call), "case": case.label,
                               "where": _where_class(detail.get("path", ""))}, witness)
            res.evaluations = 1
        finally:
            rmtree(scratch)
        return res
    return P.replay_witness(witness, set())
