"""C14 - store configuration is pinned at creation."""

import itertools
import os
import random
import shutil

from ..absstate import snapshot, Layout
from ..common import (STORE_ALGOS, DEFAULT_NS, new_scratch, rmtree, split_seeds, ncpu, call, load_repo,
                      read_all_and_close, clear_atexit_tmp_handlers)
from ..gen import chunk, make_content
from ..runner import ShardResult

ID = "C14"
LEVEL = "exploration"
RULE = ("creation configuration x reopening configuration over depth 1-5 x width 1-4 x 5 algorithms x 2 namespaces "
        "(200 configurations). quick: for 24 sampled creations (empty and populated with 2 objects + 1 metadata "
        "document) every single-key and double-key deviation, int / int-like-string encodings of depth and width, "
        "extra keys, alternative / lower-case / unsupported algorithm spellings, missing and None keys, and a "
        "directory with store data but no hashstore.yaml; thorough: additionally ALL 200 x 200 ordered pairs on "
        "empty stores. Oracle: accepted iff (int(depth), int(width), algorithm, namespace) are equal; after an "
        "accepted reopen every stored pid is retrievable byte for byte and metadata readable; after a refusal the "
        "snapshot (relative path -> size, sha256, plus the directory set) is identical. distinct_nontrivial = "
        "distinct (creation config, reopening config as given, populated) pairs whose reopen config differs from "
        "the creation config in value or encoding.")
ASSUMPTIONS = ["'equal' for the algorithm and namespace means string equality with the value given at creation"]
EXHAUSTIVE = {"quick": False, "thorough": True}

NS2 = "http://ns.example.org/other#Meta"
ALL_CFG = [(d, w, a, ns) for d in range(1, 6) for w in range(1, 5) for a in STORE_ALGOS for ns in (DEFAULT_NS, NS2)]


# namespaces that a hand-written YAML emitter / parser would mangle (numbers, booleans, nulls, comment and flow
# characters, anchors, tags, quotes); the ones with white space count only where the store accepts them at creation
ODD_NS = ["2.0", "1e3", "true", "null", "~", "'q'", '"dq"', "[x]", "{a}", "*star", "&anchor", "!tag", "%dir", "@at", "`tick",
          "ns:", ":ns", "0x1F", "012", "1_000", "yes", "No", "2001-01-01", "a\\b", "\u00e9\u2013\u00fc", "#lead", "x#y", "?", "|", ">",
          "-", "3", "key:value", "a:b:c", "http://x/y#frag", "a #b", "ns: x", "- dash", "a: b: c", "x" * 300]


def props(path, d, w, a, ns, **extra):
    p = {"store_path": path, "store_depth": d, "store_width": w, "store_algorithm": a,
         "store_metadata_namespace": ns}
    p.update(extra)
    return p


def shards(tier, seed):
    rng = random.Random(seed * 1000 + 14)
    sample = rng.sample(ALL_CFG, 24 if tier == "quick" else 60)
    out = [("deviations", c, s) for c, s in zip(chunk(sample, ncpu()), split_seeds(seed + 14, ncpu()))]
    if tier == "thorough":
        out += [("pairs", c, 0) for c in chunk(ALL_CFG, ncpu() * 2)]
    out += [("oddns", c, 0) for c in chunk(ODD_NS, 4)]
    return out


def min_required(tier):
    return {"accepted_reopens": 100, "refused_reopens": 1000, "snapshots_compared": 1000}


def populate(store, contents, docs_path):
    store.store_object("pid.one", contents["pA"])
    store.store_object("pid.two", contents["pB"])
    store.store_metadata("pid.one", docs_path)


def reopen_and_judge(res, FHS, root, created, given, populated, contents_bytes, note):
    """given: full properties dict (or something invalid). created: (d, w, a, ns)."""
    before = snapshot(root) if os.path.isdir(root) else ({}, frozenset())
    try:
        want_accept = (isinstance(given, dict)
                       and all(k in given and given[k] is not None for k in
                               ("store_path", "store_depth", "store_width", "store_algorithm", "store_metadata_namespace"))
                       and int(given["store_depth"]) == created[0] and int(given["store_width"]) == created[1]
                       and given["store_algorithm"] == created[2] and given["store_metadata_namespace"] == created[3])
    except (ValueError, TypeError):
        want_accept = False
    out = call(FHS, given)
    res.evaluations += 1
    after = snapshot(root) if os.path.isdir(root) else ({}, frozenset())
    key = repr((created, sorted((k, repr(v)) for k, v in given.items() if k != "store_path") if isinstance(given, dict) else repr(given), populated))
    res.distinct.add(key)
    witness = {"engine": "C14", "created": list(created), "given": {k: v for k, v in given.items() if k != "store_path"} if isinstance(given, dict) else repr(given),
               "populated": populated, "note": note, "outcome": out.brief(), "msg": out.msg}
    if want_accept:
        res.count("accepted_reopens")
        if not out.ok:
            res.violation({"symptom": "matching-configuration-refused", "case": note, "got": out.brief()}, witness)
            return
        if populated:
            for pid, name in (("pid.one", "A"), ("pid.two", "B")):
                r = call(out.value.retrieve_object, pid)
                if not r.ok or read_all_and_close(r.value) != contents_bytes[name]:
                    res.violation({"symptom": "data-unreachable-after-accepted-reopen", "case": note}, witness)
                    return
            r = call(out.value.retrieve_metadata, "pid.one")
            if not r.ok or read_all_and_close(r.value) != b"<sysmeta/>":
                res.violation({"symptom": "metadata-unreachable-after-accepted-reopen", "case": note}, witness)
                return
            res.count("retrievals_after_reopen", 3)
        if after != before:
            res.violation({"symptom": "accepted-reopen-modified-store", "case": note}, witness)
    else:
        res.count("refused_reopens")
        if out.ok:
            res.violation({"symptom": "mismatching-configuration-accepted", "case": note}, witness)
            return
        res.count("snapshots_compared")
        if after != before:
            diff = sorted(set(after[0].items()) ^ set(before[0].items()))[:5]
            witness["diff"] = repr(diff) + " dirs+" + repr(sorted(after[1] - before[1])[:5])
            res.violation({"symptom": "refused-open-modified-directory", "case": note}, witness)


def run_shard(mode, cfgs, sub_seed):
    res = ShardResult()
    FHS = load_repo()["FileHashStore"]
    import hashstore as _hs_pkg

    def via_factory(given):
        return _hs_pkg.HashStoreFactory.get_hashstore("hashstore.filehashstore", "FileHashStore", given)
    rng = random.Random(sub_seed)
    scratch = new_scratch("c14")
    cb = {"A": make_content(141, 5000), "B": make_content(142, 10)}
    paths = {}
    for k, v in cb.items():
        paths["p" + k] = os.path.join(scratch, "data" + k)
        open(paths["p" + k], "wb").write(v)
    docp = os.path.join(scratch, "doc")
    open(docp, "wb").write(b"<sysmeta/>")
    try:
        if mode == "oddns":
            for i, ns in enumerate(cfgs):
                root = os.path.join(scratch, f"odd{i}")
                created = (rng.choice([1, 2, 3]), rng.choice([1, 2, 3]), rng.choice(STORE_ALGOS), ns)
                out = call(FHS, props(root, *created))
                if not out.ok:
                    res.count("odd_namespaces_refused_at_creation")   # a store may restrict namespaces; no verdict
                    continue
                res.count("odd_namespaces_created")
                populate(out.value, paths, docp)
                reopen_and_judge(res, FHS, root, created, props(root, *created), True, cb, "same:odd-namespace")
                reopen_and_judge(res, FHS, root, created, props(root, str(created[0]), str(created[1]), created[2], ns), True, cb, "same:odd-namespace:str-ints")
                for other in (ns + "x", ns[:-1], ns.upper() if ns.upper() != ns else ns.lower(), DEFAULT_NS, ns + " ", "'" + ns + "'"):
                    if other != ns:
                        reopen_and_judge(res, FHS, root, created, props(root, created[0], created[1], created[2], other), True, cb, "single:ns:odd-namespace")
            return res
        if mode == "pairs":
            for created in cfgs:
                root = os.path.join(scratch, "s")
                FHS(props(root, *created))
                for given in ALL_CFG:
                    reopen_and_judge(res, FHS, root, created, props(root, *given), False, cb, "pair")
                rmtree(root)
                clear_atexit_tmp_handlers()
            res.sample({"mode": "pairs", "created": list(cfgs[0]), "reopened_with": "all 200 configurations"})
            return res
        for created in cfgs:
            d, w, a, ns = created
            for populated in (False, True):
                root = os.path.join(scratch, "s")
                st = FHS(props(root, *created))
                if populated:
                    populate(st, paths, docp)
                cases = []
                # single and double key deviations
                alts = {"d": [x for x in range(1, 6) if x != d], "w": [x for x in range(1, 5) if x != w],
                        "a": [x for x in STORE_ALGOS if x != a], "ns": [NS2 if ns == DEFAULT_NS else DEFAULT_NS, ns + "x", ns.lower() if ns.lower() != ns else ns.upper()]}
                for k in alts:
                    for v in alts[k]:
                        g = dict(d=d, w=w, a=a, ns=ns)
                        g[k] = v
                        cases.append((props(root, g["d"], g["w"], g["a"], g["ns"]), "single:" + k))
                for k1, k2 in itertools.combinations(alts, 2):
                    g = dict(d=d, w=w, a=a, ns=ns)
                    g[k1] = rng.choice(alts[k1])
                    g[k2] = rng.choice(alts[k2])
                    cases.append((props(root, g["d"], g["w"], g["a"], g["ns"]), "double:" + k1 + k2))
                # encodings
                cases.append((props(root, str(d), str(w), a, ns), "same:str-ints"))
                cases.append((props(root, str(d), w, a, ns), "same:str-depth"))
                cases.append((props(root, d, f" {w} ", a, ns), "same:padded-str-width"))
                cases.append((props(root, str(d + 1), str(w), a, ns), "single:d-as-str"))
                cases.append((props(root, d, str(w % 4 + 1), a, ns), "single:w-as-str"))
                cases.append((props(root, d, w, a, ns, extra_key="x", store_default_algo_list=["MD5"]), "same:extra-keys"))
                cases.append((props(root, d, w, a, ns), "same"))
                # algorithm spellings / unsupported
                for sp in (a.lower(), a.replace("-", ""), a.replace("-", "").lower(), a.replace("-", "_"), "SHA-224", "sha3_256", "blake2b", "", "MD-5"):
                    if sp != a:
                        cases.append((props(root, d, w, sp, ns), "algo-spelling"))
                # non-integer depth / width
                cases.append((props(root, "three", w, a, ns), "bad-int"))
                cases.append((props(root, d, "2.5", a, ns), "bad-int"))
                # missing / None keys
                for k in ("store_depth", "store_width", "store_algorithm", "store_metadata_namespace"):
                    g = props(root, d, w, a, ns)
                    del g[k]
                    cases.append((g, "missing-key"))
                    g = props(root, d, w, a, ns)
                    g[k] = None
                    cases.append((g, "none-key"))
                for given, note in cases:
                    reopen_and_judge(res, FHS, root, created, given, populated, cb, note)
                # the documented way of obtaining a store is the factory: the same verdicts must come out of it, also
                # for the second, third ... request for ONE path in ONE process
                for given, note in cases[::3] + [(props(root, d, w, a, ns), "same")]:
                    reopen_and_judge(res, via_factory, root, created, given, populated, cb, note + ":factory")
                    res.count("reopens_through_the_factory")
                # the same configuration written the way another implementation / a person would (other key order,
                # comments, an extra key): still the pinned configuration
                ypath = os.path.join(root, "hashstore.yaml")
                original = open(ypath).read()
                import yaml as _yaml
                y = _yaml.safe_load(original)
                alt = "# written by another HashStore implementation\n" + "".join(
                    f"{k}: {_yaml.safe_dump(y[k], default_flow_style=True).strip().splitlines()[0]}\n"
                    for k in reversed(list(y))) + "store_extra_key: 1\n"
                if _yaml.safe_load(alt).get("store_depth") == y["store_depth"]:
                    with open(ypath, "w") as fh:
                        fh.write(alt)
                    reopen_and_judge(res, FHS, root, created, props(root, d, w, a, ns), populated, cb, "same:foreign-yaml")
                    reopen_and_judge(res, FHS, root, created, props(root, d, w % 4 + 1, a, ns), populated, cb, "single:w:foreign-yaml")
                    with open(ypath, "w") as fh:
                        fh.write(original)
                # data directories without configuration file
                os.remove(os.path.join(root, "hashstore.yaml"))
                for given, note in ((props(root, d, w, a, ns), "no-yaml:same"), (props(root, 2, 2, "MD5", ns), "no-yaml:other")):
                    reopen_and_judge(res, FHS, root, ("no-yaml",), given, populated, cb, note)
                rmtree(root)
                # a store created anew at a path where another one lived in this process: its own configuration is pinned
                d2, w2 = d % 3 + 1, w % 3 + 1
                a2 = [x for x in STORE_ALGOS if x != a][0]
                for opener, tag_ in ((via_factory, "factory"), (FHS, "class")):
                    out = call(opener, props(root, d2, w2, a2, ns))
                    res.evaluations += 1
                    if not out.ok or not os.path.isfile(os.path.join(root, "hashstore.yaml")):
                        res.violation({"symptom": "store-recreated-at-a-used-path-has-no-configuration", "via": tag_, "got": out.brief()},
                                      {"engine": "C14", "created": [d2, w2, a2, ns], "note": "recreate", "outcome": out.brief(), "msg": out.msg})
                    else:
                        reopen_and_judge(res, opener, root, (d2, w2, a2, ns), props(root, d2, w2, a2, ns), False, cb, "same:recreated:" + tag_)
                        reopen_and_judge(res, opener, root, (d2, w2, a2, ns), props(root, d, w, a, ns), False, cb, "double:recreated:" + tag_)
                    rmtree(root)
                # store data without a configuration file where only ONE of the three data directories exists
                for sub in ("objects", "metadata", "refs"):
                    pd = os.path.join(scratch, "partial")
                    os.makedirs(os.path.join(pd, sub, "ab"))
                    with open(os.path.join(pd, sub, "ab", "cdef"), "w") as fh:
                        fh.write("leftover")
                    reopen_and_judge(res, FHS, pd, ("no-yaml",), props(pd, d, w, a, ns), False, cb, "no-yaml:only-" + sub)
                    rmtree(pd)
                # an existing directory (empty, or holding unrelated files) and a refused open: nothing may change
                for given_mod, note in ((dict(store_algorithm="sha256"), "existing-dir:unsupported-algo"),
                                        (dict(store_depth="x"), "existing-dir:bad-int"),
                                        (dict(store_width=None), "existing-dir:none-key")):
                    for unrelated in (False, True):
                        ed = os.path.join(scratch, "existing")
                        os.makedirs(ed)
                        if unrelated:
                            with open(os.path.join(ed, "README.txt"), "w") as fh:
                                fh.write("not a store")
                        g = props(ed, d, w, a, ns)
                        g.update(given_mod)
                        reopen_and_judge(res, FHS, ed, ("not-a-store",), g, False, cb, note)
                        rmtree(ed)
                # unsupported algorithm for a brand-new store: nothing may be created
                for sp in ("sha256", "SHA-224", "md5", "BLAKE2B", "SHA256"):
                    fresh = os.path.join(scratch, "fresh")
                    out = call(FHS, props(fresh, d, w, sp, ns))
                    res.evaluations += 1
                    res.count("refused_reopens")
                    res.distinct.add(repr(("fresh", created, sp)))
                    if out.ok or os.path.exists(fresh):
                        res.violation({"symptom": "unsupported-algorithm-created-files" if not out.ok else "unsupported-algorithm-accepted", "case": "fresh"},
                                      {"engine": "C14", "created": "fresh", "algo": sp, "exists": os.path.exists(fresh), "outcome": out.brief()})
                    rmtree(fresh)
            clear_atexit_tmp_handlers()
        res.sample({"mode": "deviations", "created": list(cfgs[0]), "cases_per_creation": len(cases)})
    finally:
        rmtree(scratch)
    return res


def replay(witness):
    res = ShardResult()
    print("C14 witnesses are self-describing (creation config, reopening properties, outcome):")
    print(witness)
    FHS = load_repo()["FileHashStore"]
    scratch = new_scratch("c14r")
    root = os.path.join(scratch, "s")
    if isinstance(witness.get("created"), list) and len(witness["created"]) == 4 and isinstance(witness.get("given"), dict):
        FHS(props(root, *witness["created"]))
        g = dict(witness["given"])
        g["store_path"] = root
        reopen_and_judge(res, FHS, root, tuple(witness["created"]), g, False, {}, witness.get("note", "replay"))
    rmtree(scratch)
    res.evaluations = max(res.evaluations, 1)
    return res
