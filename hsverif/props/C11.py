"""C11 - metadata documents: faithful round trip, isolation and lifetime."""

import itertools
import random

from .. import suiteengine
from ..common import new_scratch, rmtree, split_seeds, clear_atexit_tmp_handlers, ncpu, DEFAULT_NS
from ..gen import make_content, random_meta_op, op_shape, chunk
from ..runner import ShardResult
from ..seqengine import WorldPool, finding_signature, seq_witness, seq_replay

ID = "C11"
LEVEL = "exploration"
RULE = ("every sequence of length <= L (3 quick / 4 thorough on a reduced menu) over store/retrieve/delete_metadata "
        "(format omitted, explicit == default namespace, 'c' / 'bc' so that ('ab','c') and ('a','bc') concatenate "
        "equally, another format), delete_metadata(pid) and delete_object(pid) (pid bound or not) on pids ab / a, "
        "documents {empty, small, 5 buffers}, supplied as path / Path / file stream; plus random sequences of "
        "length 40 over pids ab/a/abc/b/AB and the NFC / NFD spellings of 'é', 20 formats (incl. formats with leading / trailing / inner whitespace, which the API accepts) incl. pid+namespace prefix games and formats that start / end with '/', "
        "a quarter of them in other configurations (depth 1/2/5, width 1/3, all five algorithms). After EVERY call the "
        "metadata tree is abstracted and compared with a model keyed by (pid, effective format); every "
        "retrieve_metadata is compared byte for byte. distinct_nontrivial = distinct (model metadata keys, call "
        "shape + pid + format, outcome).")
ASSUMPTIONS = ["'' as a format id is not a documented value: the model-based part excludes it; a separate part checks only "
               "what holds under every consistent reading of it (refused / means omitted / a format of its own)"]

DOCSPEC = {"d0": {"cseed": 110, "size": 0}, "d1": {"cseed": 111, "size": 37}, "d5": {"cseed": 112, "size": 5 * 8192 + 11}}
SPEC = {"X": {"cseed": 113, "size": 100}}
PIDS = ["ab", "a"]
FMTS = [None, DEFAULT_NS, "c", "bc", "f1"]


def relevant(f):
    if f.tag in ("value:meta_bytes", "value:path", "state:model:metadata"):
        return True
    if f.tag == "outcome" and f.op["op"] in ("smeta", "rmeta", "dmeta"):
        return True
    if f.tag.startswith("state:invariant:residue") and any(str(x).startswith("metadata/") for x in f.detail):
        return True
    if f.tag == "state:changed-by-rejected-call" and f.op["op"] in ("smeta", "rmeta", "dmeta"):
        return True
    return False


def menu(tier):
    m = []
    fm = FMTS if tier == "thorough" else [None, DEFAULT_NS, "c", "bc"]
    for p in PIDS:
        for f in fm:
            if (p, f) in (("ab", "bc"), ("a", "c")) and tier == "quick":
                continue
            for d in ("d1", "d5") if tier == "quick" else ("d0", "d1", "d5"):
                m.append({"op": "smeta", "pid": p, "fmt": f, "doc": d, "kind": "path" if d != "d5" else "file"})
            m.append({"op": "rmeta", "pid": p, "fmt": f})
            m.append({"op": "dmeta", "pid": p, "fmt": f} if f is not None else {"op": "dmeta", "pid": p, "fmt": None})
        m.append({"op": "delete", "pid": p})
        m.append({"op": "store", "pid": p, "content": "X", "kind": "path"})
    # de-duplicate (dmeta with fmt None appears once per pid)
    seen, out = set(), []
    for o in m:
        k = repr(sorted(o.items(), key=lambda kv: kv[0]))
        if k not in seen:
            seen.add(k)
            out.append(o)
    return out


def shards(tier, seed):
    m = menu(tier)
    L = 3
    n = ncpu()
    out = [("exh", L, fs, tier, 0) for fs in chunk(list(range(len(m))), n * 2)]
    nrand = 200 if tier == "quick" else 5000
    for s in split_seeds(seed * 1000 + 11, n):
        out.append(("rand", nrand // n, None, tier, s))
    out.append(("suite", 0, None, tier, 0))
    out.append(("emptyfmt", 6 if tier == "quick" else 40, None, tier, seed * 1000 + 111))
    return out


def min_required(tier):
    return {"retrieves_compared": 600, "model_comparisons": 20000}


def run_seq(pool, ops, res, pids, fmts):
    w = pool.fresh(pids=pids, fmts=fmts)
    before = None
    for i, op in enumerate(ops):
        mk = tuple(sorted(w.model.meta))
        out, findings, _b, before = w.step(op, i, before=before, check_retrievable=False)
        res.count("model_comparisons")
        if op["op"] == "rmeta" and out.ok:
            res.count("retrieves_compared")
        if mk:
            res.distinct.add(str(hash((mk, op_shape(op), op.get("pid"), op.get("fmt"), op.get("doc"), out.brief()))))
        rel = [f for f in findings if relevant(f)]
        for f in findings:
            if not relevant(f):
                res.foreign[f.tag] = res.foreign.get(f.tag, 0) + 1
        if rel:
            sig = finding_signature(rel[0])
            res.violation(sig, seq_witness(w, ops, rel, SPEC, DOCSPEC, upto=i + 1))
        if findings:
            return


def run_shard(mode, n, firsts, tier, sub_seed):
    res = ShardResult()
    if mode == "suite":
        suiteengine.run(res, ID)
        return res
    if mode == "emptyfmt":
        return run_empty_format(res, n, sub_seed)
    scratch = new_scratch("c11")
    contents = {k: make_content(v["cseed"], v["size"]) for k, v in SPEC.items()}
    docs = {k: make_content(v["cseed"], v["size"]) for k, v in DOCSPEC.items()}
    try:
        pool = WorldPool(scratch, contents, docs)
        if mode == "exh":
            m = menu(tier)
            count = 0
            for first in firsts:
                for tl in range(0, n):
                    for tail in itertools.product(m, repeat=tl):
                        ops = (m[first],) + tail
                        run_seq(pool, ops, res, PIDS, FMTS)
                        res.evaluations += 1
                        count += 1
                        if count % 500 == 0:
                            clear_atexit_tmp_handlers()
                        if count == 5:
                            res.sample([op_shape(o) + ":" + o["pid"] + ":" + str(o.get("fmt")) for o in ops])
        else:
            rng = random.Random(sub_seed)
            pids = ["ab", "a", "abc", "b", "\u00e9", "e\u0301", "AB"]
            fmts = [None, DEFAULT_NS, "c", "bc", "f1", "b" + DEFAULT_NS, DEFAULT_NS + "x", "http://a/b?c=d#e",
                    "http://ns.example.org/v2.0/", "/leading/slash", "f1/", "/", "%2F", "F1", "f1.", DEFAULT_NS.lower(),
                    " f1", "f1 ", "f 1", "\tf1"]
            from ..common import STORE_ALGOS
            for k in range(n):
                if k % 4 == 1:
                    # configuration variety: other shard shapes and store algorithms
                    rmtree(scratch)
                    import os as _os
                    _os.makedirs(scratch, exist_ok=True)
                    from ..seqengine import path_spelling
                    sd = path_spelling(scratch, rng.randrange(4))
                    res.count("stores_reached_through_a_non_canonical_path", 1 if sd != "store" else 0)
                    pool = WorldPool(scratch, contents, docs, depth=rng.choice([1, 2, 5]), width=rng.choice([1, 3]),
                                     algo=rng.choice(STORE_ALGOS), store_dir=sd)
                ops = []
                for _ in range(40):
                    r = rng.random()
                    if r < 0.08:
                        ops.append({"op": "store", "pid": rng.choice(pids), "content": "X", "kind": "path"})
                    elif r < 0.18:
                        ops.append({"op": "delete", "pid": rng.choice(pids)})
                    else:
                        ops.append(random_meta_op(rng, pids, fmts, list(DOCSPEC)))
                run_seq(pool, ops, res, pids, fmts)
                res.evaluations += 1
                if k == 0:
                    res.sample([op_shape(o) + ":" + o["pid"] for o in ops[:10]])
                clear_atexit_tmp_handlers()
    finally:
        rmtree(scratch)
    return res


def run_empty_format(res, n, sub_seed):
    """The empty string as a format id is not a documented value, so no reading is imposed: the store may refuse it,
    treat it as 'omitted' (consistently), or as a format of its own. Under EVERY reading an explicit
    delete_metadata(pid, "") must not remove documents of other formats unless "" demonstrably means 'omitted'."""
    import os
    from ..common import call, open_store, read_all_and_close, STORE_ALGOS
    rng = random.Random(sub_seed)
    scratch = new_scratch("c11e")
    try:
        docs = {k: make_content(v["cseed"], v["size"]) for k, v in DOCSPEC.items()}
        docs["dE"] = b"<empty-format-document/>"
        paths = {}
        for k, v in docs.items():
            paths[k] = os.path.join(scratch, "doc_" + k)
            with open(paths[k], "wb") as f:
                f.write(v)
        for i in range(n):
            root = os.path.join(scratch, f"s{i}")
            st = open_store(root, rng.choice([1, 3]), rng.choice([1, 2]), rng.choice(STORE_ALGOS))
            pid = rng.choice(["ab", "a", "doi:10.1/x", "\u00e9"])
            other = rng.choice(["c", "f1", "http://a/b#c"])
            bound = rng.random() < 0.5
            if bound:
                st.store_object(pid, paths["d1"])
            st.store_metadata(pid, paths["d1"])
            st.store_metadata(pid, paths["d5"], other)
            o = call(st.store_metadata, pid, paths["dE"], "")
            res.evaluations += 1
            wit = {"engine": "C11-empty-format", "pid": pid, "other_format": other, "bound": bound, "store_outcome": o.brief()}
            if not o.ok:
                res.count("empty_format_refused_by_store_metadata")
                reading = "refused"
            else:
                r = call(st.retrieve_metadata, pid)
                got = read_all_and_close(r.value) if r.ok else None
                if got == docs["dE"]:
                    res.count("empty_format_means_omitted")
                    continue            # a consistent 'omitted' reading: delete_metadata(pid, "") may then delete all
                reading = "own-format"
                res.count("empty_format_is_a_format_of_its_own")
            d = call(st.delete_metadata, pid, "")
            wit["reading"] = reading
            wit["delete_outcome"] = d.brief()
            res.distinct.add(repr((pid, other, bound, reading, d.brief())))
            for fmt, want in ((None, docs["d1"]), (other, docs["d5"])):
                r = call(st.retrieve_metadata, pid, fmt) if fmt is not None else call(st.retrieve_metadata, pid)
                got = read_all_and_close(r.value) if r.ok else None
                res.count("documents_checked_after_delete_of_empty_format")
                if got != want:
                    wit["lost_format"] = "default" if fmt is None else fmt
                    res.violation({"symptom": "delete_metadata-of-empty-format-removed-another-format", "reading": reading}, wit)
                    break
            if reading == "own-format" and d.ok:
                r = call(st.retrieve_metadata, pid, "")
                if r.ok:
                    read_all_and_close(r.value)
                    res.violation({"symptom": "deleted-document-still-retrievable", "format": "empty"}, wit)
            rmtree(root)
            clear_atexit_tmp_handlers()
    finally:
        rmtree(scratch)
    return res


def replay(witness):
    if witness.get("engine") == "C11-empty-format":
        res = ShardResult()
        return run_empty_format(res, 40, 111)
    return seq_replay(witness, relevant)
