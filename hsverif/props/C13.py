"""C13 - I/O failures surface as errors and leave no half-bound pid."""

import errno
import random

from ..probe import staging_name
from .. import faultengine as F
from ..common import ncpu, split_seeds, new_scratch, rmtree, Inconclusive, clear_atexit_tmp_handlers, jsonable
from ..gen import chunk, op_shape
from ..runner import ShardResult

ID = "C13"
LEVEL = "fault_enumeration"
RULE = ("29 (start state, call) cases covering store_object (new / duplicate / empty content, first / additional pid, "
        "cid with a list but no object, pid already bound), tag_object, delete_object (sole / shared reference, with "
        "metadata, missing object), store_metadata (create / overwrite), delete_metadata (one / all) from 6 start "
        "states with bystander pids that share the subject's object and carry metadata (thorough: each case in 5 "
        "identifier / configuration variants - pid lengths 1..35 incl. prefix-related and non-ASCII ones, depth 1-5, "
        "width 1-4, all five store algorithms). For each case a dry run "
        "under the probe lists the call's file-system operations; EVERY eligible site (create, open for writing, "
        "rename, remove, mkdir, flock, open for reading, under the store root) x {EIO, ENOSPC, EACCES} x {one-off, "
        "persistent for that destination until the call returns} is injected in turn (complete enumeration). Oracle: "
        "normal return only with the fault-free API-observable post-state; after a failed store/tag the pid is "
        "unbound (or its earlier binding intact) and an immediate retry succeeds and is retrievable; after a failed "
        "store_metadata the previous version is served; bystanders (pid ref, retrieve bytes, listed exactly once, "
        "metadata) unchanged. In addition every storing call is run in a child process under RLIMIT_FSIZE for 9 limits "
        "around the data size (the kernel fails or cuts the writes: a real disk-full style fault). distinct_nontrivial = distinct (case, site index, errno, persistence) runs in which "
        "the fault actually fired.")
ASSUMPTIONS = ["the probe intercepts every file-system call of the code under test: audited on every run against strace "
               "(one canonical script; the sequence of mutating system calls on store paths must equal the probe's trace)",
               "existence probes (stat) are not fault sites (the platform reports their failure as 'absent')",
               "a fault is an OSError raised in place of the system call; the call's side effect does not happen"]
EXHAUSTIVE = {"quick": True, "thorough": True}
SYMPTOMS = {"success-although-fault-free-call-fails", "success-reported-without-whole-effect", "raised-but-pid-bound",
            "retry-refused", "retry-not-retrievable", "earlier-binding-replaced", "earlier-binding-lost-and-retry-refused", "earlier-binding-to-another-object-lost", "earlier-binding-lost",
            "previous-metadata-version-lost",
            "bystander-changed"}
C08_SYMPTOMS = {"leaked-lock", "follow-up-blocked", "deadlock", "call-does-not-terminate"}
# VANISH: not an errno handed to the caller but a real condition - the staged temporary file is removed (a temp
# cleaner) just before it is renamed into place, so the rename fails with a genuine ENOENT that persists. (ENOENT is
# never injected on a file that exists: code may rightly read it as 'already gone'.)
CODES = {"EIO": errno.EIO, "ENOSPC": errno.ENOSPC, "EACCES": errno.EACCES, "VANISH": "VANISH"}


def fault_shards(tier, seed):
    nvar = 1 if tier == "quick" else len(F.VARIANTS)
    idxs = [(ci, v) for v in range(nvar) for ci in range(len(F.CASES))]
    return [(c, tier, s) for c, s in zip(chunk(idxs, ncpu() * (1 if tier == "quick" else 2)),
                                         split_seeds(seed + 13, ncpu() * 2))]


def shards(tier, seed):
    idxs = [i for i, c in enumerate(F.CASES) if c[1]["op"] in ("store", "smeta")]
    return [("audit",)] + [("fault",) + a for a in fault_shards(tier, seed)] + \
        [("fsize", c, tier) for c in chunk(idxs, 4 if tier == "quick" else 8)]


def run_fsize_shard(case_idxs, tier):
    """Kernel-level short writes: each storing call under RLIMIT_FSIZE for several limits."""
    res = ShardResult()
    for ci in case_idxs:
        for variant in range(1 if tier == "quick" else 3):
            scratch = new_scratch("fsize")
            try:
                case = F.Case(ci, scratch, variant=variant)
                data_len = len(case.contents[case.call["content"]]) if case.call["op"] == "store" else len(case.docs[case.call["doc"]])
                limits = sorted({1, 63, 100, 4096, 5000, 8192, max(1, data_len - 1), data_len, data_len + 4096})
                for lim in limits:
                    r, probs = F.run_fsize_limit(case, lim)
                    res.evaluations += 1
                    res.count("fsize_limited_runs")
                    res.count("fsize_limited_calls_raised" if not r["ok"] else "fsize_limited_calls_ok")
                    res.distinct.add(repr(("fsize", ci, variant, lim)))
                    for symptom, detail in probs:
                        sig = {"symptom": symptom, "call": op_shape(case.call), "call_kind": case.call["op"], "case": case.label,
                               "site": "write-cut-short-by-RLIMIT_FSIZE", "persistent": True, "after_both_refs_written": False,
                               "limit_vs_data": "below" if lim < data_len else "at-or-above"}
                        res.violation(sig, {"engine": "fsize", "case_index": ci, "variant": variant, "limit": lim,
                                            "data_len": data_len, "outcome": r, "detail": jsonable(detail)})
            except Inconclusive as inc:
                res.inconclusive.append(str(inc))
            finally:
                rmtree(scratch)
    return res


def run_audit_shard():
    """The probe is the trusted base of the fault / crash / observation engines: audit it against strace."""
    from ..audit import run_audit
    res = ShardResult()
    a = run_audit()
    if a["status"] == "ok":
        res.count("probe_audit_syscalls_matched", a["matched"])
        res.notes.append(f"probe audit: {a['matched']} mutating system calls seen by strace on store paths, all present "
                         f"in the probe's trace in the same order ({', '.join(a['kinds'])})")
    elif a["status"] == "mismatch":
        res.inconclusive.append("probe audit: strace saw a mutating system call on a store path that the probe did not "
                                f"intercept (or vice versa): {a}")
    else:
        res.notes.append("probe audit skipped: " + str(a.get("detail")))
    return res


def min_required(tier):
    return {"faults_fired": 600, "cases": len(F.CASES), "persistent_faults_fired": 250}


def site_class(case, op):
    """Mechanism-level description of a fault site (no indices, no random names)."""
    root = case.rundir
    rel = op.rel(__import__("os").path.abspath(root))
    def cls(r):
        if r is None:
            return None
        parts = r.split("/")
        if parts[0] == "<outside>":
            return "outside"
        if len(parts) >= 2 and parts[0] in ("objects", "metadata", "refs") and staging_name(parts[1]):
            return parts[0] + "/tmp"        # (label of the staging area, whatever the directory is called)
        if parts[0] == "refs" and len(parts) > 1:
            tail = "_delete" if parts[-1].endswith("_delete") else ""
            return "refs/" + parts[1] + tail
        return parts[0] + ("_delete" if parts[-1].endswith("_delete") else "")
    a = cls(rel.split(" -> ")[0])
    b = cls(rel.split(" -> ")[1]) if " -> " in rel else None
    return f"{op.kind}:{a}" + (f"->{b}" if b else "")


def run_fault_shard(case_idxs, tier, sub_seed, symptoms=None, owner="C13"):
    symptoms = SYMPTOMS if symptoms is None else symptoms
    res = ShardResult()
    for ci, variant in case_idxs:
        scratch = new_scratch("fault")
        try:
            case = F.Case(ci, scratch, variant=variant)
            res.count("cases")
            sites = case.sites(F.FAULT_KINDS)
            res.count("sites_enumerated", len(sites))
            if not sites:
                res.inconclusive.append(f"case {case.label}: no fault site intercepted (probe bypassed?)")
                continue
            for site in sites:
                for cname, code in CODES.items():
                    for persistent in (False, True):
                        if code == "VANISH" and (persistent or case.ops[site].kind != "rename"):
                            continue        # (a vanished file stays vanished; only renames of staged files are sites)
                        r = F.run_fault(case, site, code, persistent)
                        if r["fired"] is None:
                            if code != "VANISH":
                                res.count("sites_not_reached_on_rerun")
                            continue
                        if code == "VANISH":
                            res.count("staged_files_vanished_before_publication")
                        res.evaluations += 1
                        res.count("faults_fired")
                        if persistent:
                            res.count("persistent_faults_fired")
                        res.count("calls_raised" if not r["outcome"].ok else "calls_returned_normally")
                        res.count("hygiene_checks")
                        res.distinct.add(repr((ci, variant, site, cname, persistent)))
                        sc = site_class(case, r["fired"])
                        after_refs = _after_both_refs(case, r["injector"])
                        for symptom, detail in r["problems"]:
                            if symptom.startswith("note:"):
                                res.count(symptom[5:].replace("-", "_"))
                                continue
                            sig = {"symptom": symptom, "call": op_shape(case.call), "call_kind": case.call["op"],
                                   "case": case.label, "site": sc, "persistent": persistent,
                                   "after_both_refs_written": after_refs}
                            wit = {"engine": "fault", "case_index": ci, "variant": variant, "case": case.label, "start": case.start_name,
                                   "call": case.call, "site": site, "site_op": r["fired"].describe(case.rundir),
                                   "errno": cname, "persistent": persistent, "outcome": r["outcome"].brief(),
                                   "msg": r["outcome"].msg, "detail": jsonable(detail)}
                            if symptom in symptoms:
                                res.violation(sig, wit)
                            else:
                                res.foreign[symptom] = res.foreign.get(symptom, 0) + 1
                        if len(res.samples) < 2 and persistent:
                            res.sample({"case": case.label, "site": r["fired"].describe(case.rundir), "errno": cname,
                                        "persistent": persistent, "outcome": r["outcome"].brief()})
                clear_atexit_tmp_handlers()
        except Inconclusive as inc:
            res.inconclusive.append(str(inc))
        finally:
            rmtree(scratch)
    return res


def _after_both_refs(case, inj):
    """True when, at the moment the fault fired, both reference files of the subject pid had already
    been written (the post-write verification / roll-back window)."""
    if case.call["op"] not in ("store", "tag"):
        return False
    renames = [op for op in inj.ops[:inj.site] if op.kind in ("rename", "close-write") and op.path and
               ("/refs/pids/" in (op.path2 or op.path) or "/refs/cids/" in (op.path2 or op.path))]
    to_pid = any("/refs/pids/" in (op.path2 or "") for op in renames)
    to_cid = any("/refs/cids/" in (op.path2 or op.path or "") for op in renames)
    return bool(to_pid and to_cid)


def run_shard(kind, *args):
    if kind == "audit":
        return run_audit_shard()
    if kind == "fsize":
        return run_fsize_shard(*args)
    return run_fault_shard(*args)


def replay(witness, symptoms=None):
    symptoms = SYMPTOMS if symptoms is None else symptoms
    res = ShardResult()
    scratch = new_scratch("faultr")
    try:
        case = F.Case(witness["case_index"], scratch, variant=witness.get("variant", 0))
        print("case:", case.label, "| start:", case.start_name, "| call:", case.call)
        for i, op in enumerate(case.ops):
            mark = " <== fault here" if i == witness["site"] else ""
            print(f"   {i:3d} {op.describe(case.rundir)}{mark}")
        r = F.run_fault(case, witness["site"], CODES[witness["errno"]], witness["persistent"])
        print("outcome:", r["outcome"].brief(), r["outcome"].msg)
        for symptom, detail in r["problems"]:
            print("problem:", symptom, jsonable(detail))
            if symptom in symptoms:
                res.violation({"symptom": symptom, "call": op_shape(case.call), "call_kind": case.call["op"], "case": case.label,
                               "site": site_class(case, r["fired"]), "persistent": witness["persistent"],
                               "after_both_refs_written": _after_both_refs(case, r["injector"])}, witness)
        res.evaluations = 1
    finally:
        rmtree(scratch)
    return res
