"""C18 - identifiers are opaque: arbitrary pid / format strings never alias or escape."""

import os
import random
import re

from .. import probe
from ..absstate import snapshot, walk_files
from ..common import new_scratch, rmtree, split_seeds, ncpu, clear_atexit_tmp_handlers, STORE_ALGOS
from ..gen import make_content, adversarial_id, relatives, op_shape
from ..runner import ShardResult
from ..seqengine import World, finding_signature

ID = "C18"
LEVEL = "exploration"
RULE = ("tuples of 2-3 identifiers from a generator of whitespace-free well-formed Unicode (path separators, '..', "
        "absolute paths, leading '.'/'-', shell and glob metacharacters, NUL and other controls, combining marks, "
        "astral code points, hex-digest look-alikes, names of store directories, 255-5000 characters) where the 2nd/3rd "
        "are RELATIVES of the first (prefix, suffix, doubled last char, +NUL, case variant, +'/', +'.') or independent; "
        "format ids from the same generator (incl. pairs whose pid+format concatenations coincide, and two formats "
        "of one pid that are relatives of each other: +'/', +'.', case variant, prefix). Script: store A, "
        "store B (same content), store_metadata A/B, tag C, retrieve, delete_metadata, delete A, re-store A with other "
        "content, delete B ... run in a sandbox (store at sbx/store, cwd sbx/cwd) with the probe recording every "
        "operation. Oracle after EVERY step: the untouched identifiers' objects, references and metadata equal the "
        "model (byte for byte retrieve); every creating operation (create, open-for-write, mkdir, rename destination, "
        "link) resolves inside the store root; the sandbox outside the root is byte-identical; every remaining file "
        "sits at <fixed directory>/<lower-case hex tokens>; no transient name embeds identifier text. "
        "distinct_nontrivial = distinct identifier tuples.")
ASSUMPTIONS = ["cid arguments are always real digests (the statement is about pid / format strings)"]

SHAPE = re.compile(r"^(hashstore\.yaml|(objects|metadata|refs/pids|refs/cids)(/[0-9a-f]+)+)$")
SPEC = {"X": {"cseed": 181, "size": 300}, "Y": {"cseed": 182, "size": 9000}}
DOCS = {"d1": {"cseed": 183, "size": 20}, "d2": {"cseed": 184, "size": 8200}}
TMPALPHA = re.compile(r"^[a-z0-9_]+$")
CREATING = {"create", "wopen", "mkdir", "rename", "link"}


def shards(tier, seed):
    n = ncpu()
    per = 20 if tier == "quick" else 640
    out = [(per, s) for s in split_seeds(seed * 1000 + 18, n)]
    # identifiers are arbitrary Unicode whatever the process locale: a slice runs in a child interpreter whose
    # preferred encoding is ASCII
    out.append((12 if tier == "quick" else 200, seed * 1000 + 181, "spawn-ascii-locale"))
    return out


def min_required(tier):
    return {"bystander_checks": 2000, "creating_ops_checked": 5000, "tuples": 200}


class TracedWorld(World):
    """World whose real calls run under a probe recorder."""

    def execute(self, op):
        rec = probe.Recorder(self.root)
        self.last_trace = rec
        # data files the call reads are materialised by the harness first (outside the trace)
        if op["op"] == "store":
            self.data_path(op["content"])
        elif op["op"] == "smeta":
            self.data_path(op["doc"], self.docs)
        probe.install()
        probe.set_controller(rec)
        try:
            return super().execute(op)
        finally:
            probe.clear_controller()


def make_tuple(rng, halgo=None, contents=None):
    a = adversarial_id(rng, 40)
    r = rng.random()
    if halgo is not None and r < 0.12:
        # identifiers DERIVED from the store's own names: the digest of another pid (= the name of its reference
        # file), the cid of a stored content, the name of a metadata document, a sharded path of a cid
        import hashlib
        h = lambda t: hashlib.new(halgo, t.encode("utf-8")).hexdigest()
        cidx = hashlib.new(halgo, contents["X"]).hexdigest()
        pool = [h(a), cidx, hashlib.new(halgo, contents["Y"]).hexdigest(), h(a + "f1"), cidx[:2] + "/" + cidx[2:4] + "/" + cidx[4:],
                "refs/cids/" + cidx, h(a).upper(), cidx + "_delete"]
        rng.shuffle(pool)
        ids = [a] + pool[:2]
    elif r < 0.6:
        rel = relatives(rng, a)
        rng.shuffle(rel)
        ids = [a] + rel[:2]
    else:
        ids = [a, adversarial_id(rng, 40), adversarial_id(rng, 12)]
    ids = list(dict.fromkeys(ids))
    while len(ids) < 3:
        x = adversarial_id(rng, 10)
        if x not in ids:
            ids.append(x)
    # formats: adversarial, plus a pair engineered so that pid+format coincide across identifiers
    f1 = adversarial_id(rng, 20)
    fmts = [None, f1]
    if ids[1].startswith(ids[0]) and ids[1] != ids[0]:
        extra = ids[1][len(ids[0]):]
        fmts.append(extra + f1)      # (ids[0], extra+f1) and (ids[1], f1) concatenate equally
    else:
        rel = relatives(rng, f1)
        fmts.append(rng.choice(rel) if rel and rng.random() < 0.7 else adversarial_id(rng, 8))
    return ids, fmts


def script(rng, ids, fmts):
    A, B, Cc = ids
    ops = [
        {"op": "store", "pid": A, "content": "X", "kind": "path"},
        {"op": "store", "pid": B, "content": "X", "kind": rng.choice(["path", "bytesio"])},
        {"op": "smeta", "pid": A, "fmt": fmts[2], "doc": "d1", "kind": "path"},
        {"op": "smeta", "pid": B, "fmt": fmts[1], "doc": "d2", "kind": "path"},
        {"op": "smeta", "pid": A, "fmt": None, "doc": "d2", "kind": "path"},
        {"op": "smeta", "pid": A, "fmt": fmts[1], "doc": "d1", "kind": "path"},
        {"op": "tag", "pid": Cc, "cid": ["of", "X"]},
        {"op": "retrieve", "pid": A},
        {"op": "rmeta", "pid": B, "fmt": fmts[1]},
        {"op": "rmeta", "pid": A, "fmt": fmts[1]},
        {"op": "dmeta", "pid": A, "fmt": fmts[2]},
        {"op": "rmeta", "pid": B, "fmt": fmts[1]},
        {"op": "delete", "pid": A},
        {"op": "retrieve", "pid": B},
        {"op": "store", "pid": A, "content": "Y", "kind": "path"},
        {"op": "dmeta", "pid": B, "fmt": None},
        {"op": "delete", "pid": Cc},
        {"op": "delete", "pid": B},
        {"op": "retrieve", "pid": A},
        {"op": "delete", "pid": A},
    ]
    return ops


def run_in_ascii_locale(n, sub_seed):
    import json
    import subprocess
    import sys
    from ..common import VERIF_ROOT, SRC
    res = ShardResult()
    code = ("import sys, json; sys.path.insert(0, %r); from hsverif.common import load_repo; load_repo(); "
            "from hsverif.props import C18; r = C18.run_shard(%d, %d, 'inside'); "
            "print('RESULT ' + json.dumps({'ev': r.evaluations, 'viol': [[s, {k: repr(v)[:300] for k, v in w.items()}] for s, w in r.violations], "
            "'counters': {k: v for k, v in r.counters.items() if isinstance(v, int)}, 'n': len(r.distinct), "
            "'enc': __import__('locale').getpreferredencoding(False)}))" % (VERIF_ROOT, n, sub_seed))
    env = dict(os.environ, LC_ALL="C", LANG="C", PYTHONUTF8="0", PYTHONCOERCECLOCALE="0", HSVERIF_SRC=SRC,
               PYTHONIOENCODING="ascii:backslashreplace")
    p = subprocess.run([sys.executable, "-c", code], capture_output=True, text=True, timeout=1800, env=env)
    line = [ln for ln in p.stdout.splitlines() if ln.startswith("RESULT ")]
    if p.returncode != 0 or not line:
        res.inconclusive.append("child interpreter in the ASCII locale failed: " + (p.stderr or "")[-400:])
        return res
    d = json.loads(line[-1][7:])
    res.evaluations = d["ev"]
    for i in range(d["n"]):
        res.distinct.add(f"ascii-locale:{sub_seed}:{i}")
    for sig, wit in d["viol"]:
        sig["locale"] = "ascii"
        res.violation(sig, wit)
    res.count("steps_in_ascii_locale", d["ev"])
    for k, v in d["counters"].items():
        res.count(k, v)
    return res


def run_shard(n, sub_seed, locale_mode=None):
    if locale_mode == "spawn-ascii-locale":
        return run_in_ascii_locale(n, sub_seed)
    res = ShardResult()
    rng = random.Random(sub_seed)
    contents = {k: make_content(v["cseed"], v["size"]) for k, v in SPEC.items()}
    docs = {k: make_content(v["cseed"], v["size"]) for k, v in DOCS.items()}
    cwd0 = os.getcwd()
    for k in range(n):
        sbx = new_scratch("c18")
        try:
            os.makedirs(os.path.join(sbx, "cwd"))
            with open(os.path.join(sbx, "cwd", "canary"), "w") as f:
                f.write("canary")
            os.chdir(os.path.join(sbx, "cwd"))
            algo = rng.choice(STORE_ALGOS)
            from ..common import HASHLIB_OF
            ids, fmts = make_tuple(rng, HASHLIB_OF[algo], contents)
            w = TracedWorld(sbx, contents, docs, pids=ids, fmts=fmts, algo=algo, depth=rng.choice([1, 3]),
                            width=rng.choice([1, 2]), store_dir="store", datadir=os.path.join(sbx, "data"))
            for c in contents:
                w.data_path(c)
            for d in docs:
                w.data_path(d, w.docs)
            ops = script(rng, ids, fmts)
            root = os.path.abspath(w.root)
            outside_before = _outside(sbx)
            res.count("tuples")
            res.distinct.add(repr((ids, fmts)))
            before = None
            bad = False
            for i, op in enumerate(ops):
                out, findings, _b, before = w.step(op, i, before=before)
                res.evaluations += 1
                res.count("bystander_checks", max(0, len(w.model.bound) - (1 if op.get("pid") in w.model.bound else 0)) + len(w.model.meta))
                wit = {"engine": "C18", "ids": ids, "fmts": fmts, "config": w.cfg, "ops": ops[: i + 1], "outcome": out.brief()}
                for f in findings:
                    sig = finding_signature(f)
                    sig["id_relation"] = "relatives" if ids[1] in relatives(rng, ids[0]) or True else "independent"
                    del sig["id_relation"]
                    res.violation(sig, dict(wit, finding=f.to_json()))
                    bad = True
                # containment of every creating operation
                for o in w.last_trace.ops:
                    if o.kind in CREATING:
                        res.count("creating_ops_checked")
                        target = o.path2 if o.kind in ("rename", "link") and o.path2 else o.path
                        if not probe.under(root, os.path.realpath(target)) and not probe.under(root, target):
                            res.violation({"symptom": "creating-operation-outside-store-root", "call": op_shape(op), "kind": o.kind},
                                          dict(wit, operation=o.describe(root)))
                            bad = True
                        base = os.path.basename(target)
                        for ident in ids + [f for f in fmts if f]:
                            # tempfile draws 8 characters from [a-z0-9_]; only identifier text that could not
                            # be such a draw by chance is taken as evidence of embedding
                            if ident in base and (len(ident) >= 8 or (len(ident) >= 4 and not TMPALPHA.match(ident))):
                                res.violation({"symptom": "file-name-embeds-identifier-text", "call": op_shape(op)},
                                              dict(wit, operation=o.describe(root)))
                                bad = True
                # shape of what remains
                files, _dirs = walk_files(root)
                for rel in files:
                    if not SHAPE.match(rel):
                        res.violation({"symptom": "file-at-a-location-not-derived-from-hashes", "call": op_shape(op)},
                                      dict(wit, path=rel))
                        bad = True
                if _outside(sbx) != outside_before:
                    res.violation({"symptom": "sandbox-outside-store-root-changed", "call": op_shape(op)}, wit)
                    bad = True
                if bad:
                    break
            if k < 2:
                res.sample({"ids": ids, "fmts": fmts, "algo": algo, "steps": len(ops)})
        finally:
            os.chdir(cwd0)
            rmtree(sbx)
            clear_atexit_tmp_handlers()
    return res


def _outside(sbx):
    files, dirs = walk_files(sbx)
    return ({k: v for k, v in files.items() if not k.startswith(("store/", "data/"))},
            frozenset(d for d in dirs if not d.startswith(("store", "data"))))


def replay(witness):
    from ..seqengine import seq_replay
    wit = {"contents": SPEC, "docs": DOCS, "cfg": witness.get("config", {}), "pids": witness["ids"],
           "fmts": witness["fmts"], "ops": witness["ops"]}
    return seq_replay(wit, lambda f: True)
