"""C02 - reported checksums are true and depend only on the call that asked."""

import random

from .. import suiteengine
from ..common import ALL_ALGOS, DEFAULT_ALGOS, new_scratch, rmtree, split_seeds, clear_atexit_tmp_handlers
from ..gen import make_content, op_shape, spelling
from ..model import SPELLINGS, canon_algo
from ..runner import ShardResult
from ..seqengine import World, finding_signature, seq_witness, seq_replay, open_store

ID = "C02"
LEVEL = "exploration"
RULE = ("histories of 20-60 calls on ONE long-lived FileHashStore instance: store_object with every combination "
        "of additional_algorithm / checksum_algorithm (none, default, non-default, equal to the store algorithm, "
        "both equal) over 12 algorithms x accepted spellings (hashlib name, upper case, '-'/'_' at the canonical "
        "separator), interleaved get_hex_digest under random spellings and deletes, each history ending with a "
        "plain store whose key set must be exactly the five defaults. Oracle: key set == defaults + canonical(add) "
        "+ canonical(checksum_algorithm) of THAT call; every value == hashlib digest. distinct_nontrivial = "
        "distinct (canonical add, canonical checksum algo, spelling forms, content, 'a non-default algorithm was "
        "requested earlier on this instance') tuples. Overlap part: 7 scenarios of 2-3 calls on different pids with "
        "different additional / checksum algorithms (and get_hex_digest) on ONE instance under scheduler-controlled "
        "statement-level random / PCT schedules, plus 6 OS-scheduled threads storing their own pids with their own "
        "algorithms; each result is judged from its own call's arguments and hashlib alone.")
ASSUMPTIONS = ["accepted spellings are those of hsverif/model.py SPELLINGS (forms shown in README/tests)"]

SPEC = {"e": {"cseed": 1, "size": 0}, "one": {"cseed": 2, "size": 1}, "b1": {"cseed": 3, "size": 8193},
        "big": {"cseed": 4, "size": 20000}}
TAGS = {"value:digest_keys", "value:digest_values", "value:hexdigest"}


def relevant(f):
    if f.tag in TAGS:
        return True
    # an accepted spelling must not be rejected
    if f.tag == "outcome" and f.op["op"] in ("store", "hexdigest") and \
            "UnsupportedAlgorithm" in str(f.detail.get("got")):
        return True
    return False


def shards(tier, seed):
    n = 16
    per = 6 if tier == "quick" else 120
    out = [(s, per, i) for i, s in enumerate(split_seeds(seed * 1000 + 2, n))] + [("suite", 0, -1)]
    # overlapping calls on ONE instance: 'depends only on the call that asked' also when another call is in flight
    nline = 12 if tier == "quick" else 120
    for i, s in enumerate(split_seeds(seed * 1000 + 22, len(CONC_SCENARIOS))):
        out.append(("conc", nline, i, s))
    for i, s in enumerate(split_seeds(seed * 1000 + 23, 2 if tier == "quick" else 8)):
        out.append(("free", 25 if tier == "quick" else 120, i, s))
    return out


def min_required(tier):
    return {"evaluations": 1500, "digest_maps_checked": 800, "hexdigests_checked": 300, "plain_after_nondefault": 40,
            "hexdigests_after_delete_and_restore": 20, "overlapping_results_checked": 100, "overlapping_schedules": 40, "free_running_results_checked": 200}


def history(rng, w, res, algo_cycle):
    ops = []
    k = 0
    n = rng.randint(20, 60) if rng.random() < 0.9 else rng.randint(400, 900)     # (a few long lives of one instance)
    live = []
    requested_nondefault = False
    for _ in range(n):
        r = rng.random()
        if r < 0.6 or not live:
            pid = f"p{k}"
            k += 1
            op = {"op": "store", "pid": pid, "content": rng.choice(list(SPEC)), "kind": rng.choice(["path", "file", "bytesio"])}
            combo = rng.choice(["none", "add", "calgo", "both", "both_equal", "add_store_algo", "plain", "plain"])
            a1 = next(algo_cycle)
            a2 = rng.choice(ALL_ALGOS)
            if combo in ("add", "both"):
                op["add"] = spelling(rng, a1)
            if combo in ("calgo", "both"):
                op["calgo"] = spelling(rng, a2 if combo == "both" else a1)
                op["checksum"] = rng.choice(["ok", "upper"])
            if combo == "both_equal":
                op["add"] = spelling(rng, a1)
                op["calgo"] = spelling(rng, a1)
                op["checksum"] = "ok"
            if combo == "add_store_algo":
                sa = w.layout.halgo
                op["add"] = rng.choice([sa, w.layout.algo])
                if rng.random() < 0.5:
                    op["calgo"] = rng.choice([sa, w.layout.algo])
                    op["checksum"] = "ok"
            if op["content"] == "e":
                op.pop("size", None)
            ops.append(op)
            live.append(pid)
        elif r < 0.70:
            # a store that will be rejected (pid is live) with other content and other algorithms, then the digest
            # of what the pid really names: values must not depend on the rejected call
            pid = rng.choice(live)
            ops.append({"op": "store", "pid": pid, "content": rng.choice(list(SPEC)), "kind": "path",
                        "add": spelling(rng, next(algo_cycle))})
            ops.append({"op": "hexdigest", "pid": pid, "algo": spelling(rng, rng.choice(ALL_ALGOS))})
        elif r < 0.85:
            ops.append({"op": "hexdigest", "pid": rng.choice(live), "algo": spelling(rng, next(algo_cycle))})
        elif r < 0.93:
            pid = live.pop(rng.randrange(len(live)))
            ops.append({"op": "delete", "pid": pid})
        else:
            # the same pid names other content later in its life: digest asked, pid deleted, digest asked again (must be
            # refused), pid stored again with OTHER content, same digest asked again - must be that of the new content
            pid = live[rng.randrange(len(live))]
            first = next((o["content"] for o in reversed(ops) if o["op"] == "store" and o.get("pid") == pid), None)
            a = spelling(rng, next(algo_cycle))
            ops.append({"op": "hexdigest", "pid": pid, "algo": a})
            ops.append({"op": "delete", "pid": pid})
            ops.append({"op": "hexdigest", "pid": pid, "algo": a})
            ops.append({"op": "store", "pid": pid, "content": rng.choice([c for c in SPEC if c != first]), "kind": "path"})
            ops.append({"op": "hexdigest", "pid": pid, "algo": a})
            ops[-1]["after_rebirth"] = True
    ops.append({"op": "store", "pid": f"p{k}", "content": "b1", "kind": "path"})
    ops.append({"op": "store", "pid": None, "content": "big", "kind": "path"})
    before = None
    for i, op in enumerate(ops):
        out, findings, _b, before = w.step(op, i, before=before, check_retrievable=False)
        res.evaluations += 1
        if op["op"] == "store" and out.ok:
            res.count("digest_maps_checked")
            nd = {canon_algo(op[x]) for x in ("add", "calgo") if op.get(x)} - set(DEFAULT_ALGOS)
            if not nd and requested_nondefault:
                res.count("plain_after_nondefault")
            res.distinct.add(repr((canon_algo(op.get("add") or "") or "", canon_algo(op.get("calgo") or "") or "",
                                   op.get("add"), op.get("calgo"), op["content"], requested_nondefault)))
            if nd:
                requested_nondefault = True
        if op["op"] == "hexdigest" and out.ok:
            res.count("hexdigests_checked")
            if op.get("after_rebirth"):
                res.count("hexdigests_after_delete_and_restore")
            res.distinct.add(repr(("hex", op["algo"], requested_nondefault)))
        rel = [f for f in findings if relevant(f)]
        for f in findings:
            if not relevant(f):
                res.foreign[f.tag] = res.foreign.get(f.tag, 0) + 1
        if rel:
            res.violation(finding_signature(rel[0]), seq_witness(w, ops, rel, SPEC, upto=i + 1))
            return ops
        if findings and op["op"] != "hexdigest":
            return ops      # (a read-only call changes no state: the history can go on after an observation owned elsewhere)
    return ops


def _cst(pid, c, **kw):
    d = {"op": "store", "pid": pid, "content": c, "kind": "path"}
    d.update(kw)
    return d


def _hx(pid, algo):
    return {"op": "hexdigest", "pid": pid, "algo": algo}


CSPEC = {"X": {"cseed": 201, "size": 9000}, "Y": {"cseed": 202, "size": 70}, "Z": {"cseed": 203, "size": 20000}}
CONC_SCENARIOS = [
    ("empty", [], [_cst("p1", "X", add="sha3_256"), _cst("p2", "Y", add="blake2b")]),
    ("empty", [], [_cst("p1", "X", calgo="sha224", checksum="ok"), _cst("p2", "Y")]),
    ("empty", [], [_cst("p1", "X", add="sha3_384", calgo="blake2s", checksum="ok"), _cst("p2", "X", add="sha224")]),
    ("empty", [], [_cst("p1", "Z", add="blake2s"), _cst("p2", "Y", add="sha3_512"), _cst("p3", "X")]),
    ("p2->Y", [_cst("p2", "Y")], [_cst("p1", "X", add="sha3_224"), _hx("p2", "blake2b")]),
    ("p1->X,p2->Y", [_cst("p1", "X"), _cst("p2", "Y")], [_hx("p1", "sha3_256"), _hx("p2", "sha224")]),
    ("p1->X,p2->Y", [_cst("p1", "X"), _cst("p2", "Y")], [_hx("p1", "blake2s"), _hx("p2", "blake2s"), _cst("p3", "Z", add="sha3_512")]),
]


def check_overlapping_result(op, out, contents, store_halgo, res, counter):
    """Oracle for one call's result, from the call's own arguments and hashlib only. Returns a problem dict or None."""
    import hashlib
    if not out.ok:
        return {"symptom": "call-failed-although-no-other-call-touches-its-pid", "got": out.brief()}
    data = contents[op["content"]] if op["op"] == "store" else None
    res.count(counter)
    if op["op"] == "hexdigest":
        return None
    v = out.value
    want_keys = set(DEFAULT_ALGOS) | {canon_algo(op[x]) for x in ("add", "calgo") if op.get(x)}
    hd = dict(getattr(v, "hex_digests", None) or {})
    if set(hd) != want_keys:
        return {"symptom": "digest-keys-of-another-call", "missing": sorted(want_keys - set(hd)), "extra": sorted(set(hd) - want_keys)}
    for k, val in hd.items():
        kw = {"length": 32} if k.startswith("shake") else {}
        if hashlib.new(k, data).hexdigest(**kw) != val:
            return {"symptom": "digest-value-untrue-under-overlap", "algorithm": k}
    if v.cid != hashlib.new(store_halgo, data).hexdigest() or v.obj_size != len(data):
        return {"symptom": "cid-or-size-untrue-under-overlap"}
    return None


def run_conc(n, idx, sub_seed):
    """Scheduler-controlled overlap with statement-level yield points (the shared state in question is in memory)."""
    import hashlib
    from .. import concengine as CE, sched as S
    res = ShardResult()
    rng = random.Random(sub_seed)
    start_name, start, calls = CONC_SCENARIOS[idx]
    scn = CE.Scenario(f"{start_name}|" + "||".join(op_shape(c) + ":" + str(c.get("add") or c.get("calgo") or c.get("algo") or "") for c in calls),
                      start, calls, CSPEC, pids=["p1", "p2", "p3"], start_class=start_name)
    scratch = new_scratch("c02c")
    try:
        runner = CE.ScenarioRunner(scn, scratch)
        for i in range(n):
            if i % 3 == 2:
                ch = S.PCTChooser(rng, len(calls), 3, 1500)
            else:
                ch = S.RandomChooser(rng, rng.choice([0.01, 0.03, 0.08, 0.2]))
            ob = runner.run(ch, line_level=True, with_followup=False)
            if ob.harness_errors or ob.hang:
                res.inconclusive.append(f"overlap run did not complete: {ob.harness_errors or ob.hang}")
                break
            if ob.deadlock:
                res.foreign["deadlock"] = res.foreign.get("deadlock", 0) + 1
                continue
            res.evaluations += 1
            res.count("overlapping_schedules")
            res.count("statement_level_yield_points", ob.line_points or 0)
            res.distinct.add(repr((scn.name, tuple(ob.points[:400]))))
            for op, out in zip(calls, ob.outcomes):
                if out is None:
                    continue
                if op["op"] == "hexdigest" and out.ok:
                    data = runner.contents[[c for c in start if c["pid"] == op["pid"]][0]["content"]]
                    if out.value != hashlib.new(canon_algo(op["algo"]), data).hexdigest():
                        res.violation({"engine": "overlap", "symptom": "hexdigest-untrue-under-overlap", "calls": sorted(op_shape(c) for c in calls)},
                                      {"engine": "C02-overlap", "scenario": idx, "schedule": list(ob.trace)[:3000], "seed": sub_seed, "run": i})
                        continue
                prob = check_overlapping_result(op, out, runner.contents, runner.layout.halgo, res, "overlapping_results_checked")
                if prob:
                    if prob["symptom"].startswith("call-failed"):
                        res.foreign["overlap:" + prob["got"]] = res.foreign.get("overlap:" + prob["got"], 0) + 1
                        continue
                    res.violation({"engine": "overlap", "symptom": prob["symptom"], "calls": sorted(op_shape(c) for c in calls)},
                                  {"engine": "C02-overlap", "scenario": idx, "problem": prob, "seed": sub_seed, "run": i,
                                   "call": op, "schedule_head": [str(t) for t in list(ob.trace)[:60]]})
            if i == 0 and idx == 0:
                res.sample({"scenario": scn.name, "yield_points": ob.line_points, "outcomes": [o.brief() if o else None for o in ob.outcomes]})
            if i % 20 == 0:
                clear_atexit_tmp_handlers()
    finally:
        rmtree(scratch)
    return res


def run_free(n, idx, sub_seed):
    """OS-scheduled threads on ONE instance, each storing its own pids with its own algorithms."""
    import os
    import sys
    import threading
    from ..common import call
    res = ShardResult()
    rng = random.Random(sub_seed)
    scratch = new_scratch("c02f")
    old = sys.getswitchinterval()
    try:
        sys.setswitchinterval(1e-5)
        contents = {k: make_content(v["cseed"], v["size"]) for k, v in CSPEC.items()}
        paths = {}
        for k, d in contents.items():
            paths[k] = os.path.join(scratch, "data_" + k)
            with open(paths[k], "wb") as f:
                f.write(d)
        store = open_store(os.path.join(scratch, "store"))
        nthreads = 6
        nond = [a for a in ALL_ALGOS if a not in DEFAULT_ALGOS]
        plans = []
        for t in range(nthreads):
            plan = []
            for j in range(n):
                op = _cst(f"t{t}.{j}", rng.choice(list(CSPEC)))
                r = rng.random()
                if r < 0.45:
                    op["add"] = nond[(t + j) % len(nond)]
                elif r < 0.7:
                    op["calgo"] = nond[(t * 2 + j) % len(nond)]
                    op["checksum"] = "ok"
                plan.append(op)
            plans.append(plan)
        results = [[] for _ in plans]
        bar = threading.Barrier(nthreads)

        def body(t):
            import hashlib
            bar.wait()
            for op in plans[t]:
                data = contents[op["content"]]
                cs = hashlib.new(op["calgo"], data).hexdigest() if op.get("calgo") else None
                results[t].append(call(store.store_object, op["pid"], paths[op["content"]], op.get("add"), cs, op.get("calgo")))
        ths = [threading.Thread(target=body, args=(t,), daemon=True) for t in range(nthreads)]
        for t in ths:
            t.start()
        for t in ths:
            t.join(120)
        if any(t.is_alive() for t in ths):
            res.inconclusive.append("free-running C02 threads did not finish within 120 s")
            return res
        for t in range(nthreads):
            for op, out in zip(plans[t], results[t]):
                res.evaluations += 1
                prob = check_overlapping_result(op, out, contents, "sha256", res, "free_running_results_checked")
                if prob:
                    if prob["symptom"].startswith("call-failed"):
                        res.foreign["free:" + prob["got"]] = res.foreign.get("free:" + prob["got"], 0) + 1
                        continue
                    res.violation({"engine": "free-running", "symptom": prob["symptom"]},
                                  {"engine": "C02-free", "n": n, "idx": idx, "seed": sub_seed, "problem": prob, "call": op})
    finally:
        sys.setswitchinterval(old)
        rmtree(scratch)
        clear_atexit_tmp_handlers()
    return res


def run_shard(sub_seed, n, idx, extra=None):
    res = ShardResult()
    if sub_seed == "suite":
        suiteengine.run(res, ID)
        return res
    if sub_seed == "conc":
        return run_conc(n, idx, extra)
    if sub_seed == "free":
        return run_free(n, idx, extra)
    rng = random.Random(sub_seed)
    contents = {k: make_content(v["cseed"], v["size"]) for k, v in SPEC.items()}

    def cyc():
        while True:
            order = list(ALL_ALGOS)
            rng.shuffle(order)
            yield from order
    algo_cycle = cyc()
    for j in range(n):
        scratch = new_scratch("c02")
        try:
            w = World(scratch, contents, {}, algo=rng.choice(["SHA-256", "MD5", "SHA-512", "SHA-1", "SHA-384"]))
            ops = history(rng, w, res, algo_cycle)
            if j == 0:
                res.sample({"history": [op_shape(o) + (":" + str(o.get("add")) if o.get("add") else "") +
                                        (":" + str(o.get("calgo")) if o.get("calgo") else "") +
                                        (":" + str(o.get("algo")) if o.get("algo") else "") for o in ops[:15]]})
        finally:
            rmtree(scratch)
            clear_atexit_tmp_handlers()
    return res


def replay(witness):
    if witness.get("engine") == "C02-overlap":
        return run_conc(max(witness.get("run", 0) + 1, 30), witness["scenario"], witness["seed"])
    if witness.get("engine") == "C02-free":
        return run_free(witness["n"], witness["idx"], witness["seed"])
    return seq_replay(witness, relevant)
