"""C02 - reported checksums are true and depend only on the call that asked."""

import random

from .. import suiteengine
from ..common import ALL_ALGOS, DEFAULT_ALGOS, new_scratch, rmtree, split_seeds, clear_atexit_tmp_handlers
from ..gen import make_content, op_shape, spelling
from ..model import SPELLINGS, canon_algo
from ..runner import ShardResult
from ..seqengine import World, finding_signature, seq_witness, seq_replay

ID = "C02"
LEVEL = "exploration"
RULE = ("histories of 20-60 calls on ONE long-lived FileHashStore instance: store_object with every combination "
        "of additional_algorithm / checksum_algorithm (none, default, non-default, equal to the store algorithm, "
        "both equal) over 12 algorithms x accepted spellings (hashlib name, upper case, '-'/'_' at the canonical "
        "separator), interleaved get_hex_digest under random spellings and deletes, each history ending with a "
        "plain store whose key set must be exactly the five defaults. Oracle: key set == defaults + canonical(add) "
        "+ canonical(checksum_algorithm) of THAT call; every value == hashlib digest. distinct_nontrivial = "
        "distinct (canonical add, canonical checksum algo, spelling forms, content, 'a non-default algorithm was "
        "requested earlier on this instance') tuples.")
ASSUMPTIONS = ["accepted spellings are those of hsverif/model.py SPELLINGS (forms shown in README/tests)"]

SPEC = {"e": {"cseed": 1, "size": 0}, "one": {"cseed": 2, "size": 1}, "b1": {"cseed": 3, "size": 8193},
        "big": {"cseed": 4, "size": 20000}}
TAGS = {"value:digest_keys", "value:digest_values", "value:hexdigest"}


def relevant(f):
    if f.tag in TAGS:
        return True
    # an accepted spelling must not be rejected
    if f.tag == "outcome" and f.op["op"] in ("store", "hexdigest") and \
            "UnsupportedAlgorithm" in str(f.detail.get("got")):
        return True
    return False


def shards(tier, seed):
    n = 16
    per = 6 if tier == "quick" else 120
    return [(s, per, i) for i, s in enumerate(split_seeds(seed * 1000 + 2, n))] + [("suite", 0, -1)]


def min_required(tier):
    return {"evaluations": 1500, "digest_maps_checked": 800, "hexdigests_checked": 300, "plain_after_nondefault": 40}


def history(rng, w, res, algo_cycle):
    ops = []
    k = 0
    n = rng.randint(20, 60)
    live = []
    requested_nondefault = False
    for _ in range(n):
        r = rng.random()
        if r < 0.6 or not live:
            pid = f"p{k}"
            k += 1
            op = {"op": "store", "pid": pid, "content": rng.choice(list(SPEC)), "kind": rng.choice(["path", "file", "bytesio"])}
            combo = rng.choice(["none", "add", "calgo", "both", "both_equal", "add_store_algo", "plain", "plain"])
            a1 = next(algo_cycle)
            a2 = rng.choice(ALL_ALGOS)
            if combo in ("add", "both"):
                op["add"] = spelling(rng, a1)
            if combo in ("calgo", "both"):
                op["calgo"] = spelling(rng, a2 if combo == "both" else a1)
                op["checksum"] = rng.choice(["ok", "upper"])
            if combo == "both_equal":
                op["add"] = spelling(rng, a1)
                op["calgo"] = spelling(rng, a1)
                op["checksum"] = "ok"
            if combo == "add_store_algo":
                sa = w.layout.halgo
                op["add"] = rng.choice([sa, w.layout.algo])
                if rng.random() < 0.5:
                    op["calgo"] = rng.choice([sa, w.layout.algo])
                    op["checksum"] = "ok"
            if op["content"] == "e":
                op.pop("size", None)
            ops.append(op)
            live.append(pid)
        elif r < 0.70:
            # a store that will be rejected (pid is live) with other content and other algorithms, then the digest
            # of what the pid really names: values must not depend on the rejected call
            pid = rng.choice(live)
            ops.append({"op": "store", "pid": pid, "content": rng.choice(list(SPEC)), "kind": "path",
                        "add": spelling(rng, next(algo_cycle))})
            ops.append({"op": "hexdigest", "pid": pid, "algo": spelling(rng, rng.choice(ALL_ALGOS))})
        elif r < 0.85:
            ops.append({"op": "hexdigest", "pid": rng.choice(live), "algo": spelling(rng, next(algo_cycle))})
        else:
            pid = live.pop(rng.randrange(len(live)))
            ops.append({"op": "delete", "pid": pid})
    ops.append({"op": "store", "pid": f"p{k}", "content": "b1", "kind": "path"})
    ops.append({"op": "store", "pid": None, "content": "big", "kind": "path"})
    before = None
    for i, op in enumerate(ops):
        out, findings, _b, before = w.step(op, i, before=before, check_retrievable=False)
        res.evaluations += 1
        if op["op"] == "store" and out.ok:
            res.count("digest_maps_checked")
            nd = {canon_algo(op[x]) for x in ("add", "calgo") if op.get(x)} - set(DEFAULT_ALGOS)
            if not nd and requested_nondefault:
                res.count("plain_after_nondefault")
            res.distinct.add(repr((canon_algo(op.get("add") or "") or "", canon_algo(op.get("calgo") or "") or "",
                                   op.get("add"), op.get("calgo"), op["content"], requested_nondefault)))
            if nd:
                requested_nondefault = True
        if op["op"] == "hexdigest" and out.ok:
            res.count("hexdigests_checked")
            res.distinct.add(repr(("hex", op["algo"], requested_nondefault)))
        rel = [f for f in findings if relevant(f)]
        for f in findings:
            if not relevant(f):
                res.foreign[f.tag] = res.foreign.get(f.tag, 0) + 1
        if rel:
            res.violation(finding_signature(rel[0]), seq_witness(w, ops, rel, SPEC, upto=i + 1))
            return ops
        if findings:
            return ops
    return ops


def run_shard(sub_seed, n, idx):
    res = ShardResult()
    if sub_seed == "suite":
        suiteengine.run(res, ID)
        return res
    rng = random.Random(sub_seed)
    contents = {k: make_content(v["cseed"], v["size"]) for k, v in SPEC.items()}

    def cyc():
        while True:
            order = list(ALL_ALGOS)
            rng.shuffle(order)
            yield from order
    algo_cycle = cyc()
    for j in range(n):
        scratch = new_scratch("c02")
        try:
            w = World(scratch, contents, {}, algo=rng.choice(["SHA-256", "MD5", "SHA-512", "SHA-1", "SHA-384"]))
            ops = history(rng, w, res, algo_cycle)
            if j == 0:
                res.sample({"history": [op_shape(o) + (":" + str(o.get("add")) if o.get("add") else "") +
                                        (":" + str(o.get("calgo")) if o.get("calgo") else "") +
                                        (":" + str(o.get("algo")) if o.get("algo") else "") for o in ops[:15]]})
        finally:
            rmtree(scratch)
            clear_atexit_tmp_handlers()
    return res


def replay(witness):
    return seq_replay(witness, relevant)
