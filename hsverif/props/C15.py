"""C15 - on-disk layout follows the published HashStore layout for every configuration."""

import os
import random

import yaml

from .C14 import ODD_NS

from ..absstate import Layout, walk_files
from ..common import STORE_ALGOS, DEFAULT_NS, new_scratch, rmtree, split_seeds, ncpu, load_repo, clear_atexit_tmp_handlers
from ..gen import chunk, make_content, adversarial_id
from ..runner import ShardResult

ID = "C15"
LEVEL = "exploration"
RULE = ("ALL configurations depth 1-6 x width 1-4 with depth*width <= 24 x 5 store algorithms (exhaustive grid), "
        "each with r random pid / format / content draws (r=10 quick, 100 thorough; pids incl. non-ASCII and "
        "path-like strings). Script: store_object of two pids sharing one content and one pid with other content, "
        "three metadata documents (default and explicit format), one delete_object. Oracle: the set of (relative "
        "path, bytes) under the store root equals the set computed by an independent implementation of the README "
        "layout (shard = depth tokens of width characters + remainder; H = store algorithm over UTF-8), pid ref == "
        "cid exactly, cid list == 'pid\\n' lines, hashstore.yaml (parsed) carries the documented keys/values. "
        "A sample of the grid is re-run in a child interpreter whose preferred encoding is ASCII (the layout is a wire "
        "format and must not depend on the locale). distinct_nontrivial = distinct (depth, width, algorithm, draw).")
ASSUMPTIONS = ["README 'What does HashStore look like?' is the layout specification"]
EXHAUSTIVE = {"quick": True, "thorough": True}

GRID = [(d, w, a) for d in range(1, 7) for w in range(1, 5) if d * w <= 24 for a in STORE_ALGOS]
# shard shapes that use up the digest exactly, all but one character of it, or more than it has (no remainder token,
# a one-character file name, trailing empty tokens): depth * width around the hex length of each algorithm
_HEXLEN = {"MD5": 32, "SHA-1": 40, "SHA-256": 64, "SHA-384": 96, "SHA-512": 128}
BOUNDARY_GRID = []
for _a in STORE_ALGOS:
    _n = _HEXLEN[_a]
    for _w in (1, 2, 4, 5, 8, 16):
        for _d in {_n // _w, (_n - 1) // _w, _n // _w + 1}:
            if _d >= 1 and (_d, _w, _a) not in BOUNDARY_GRID:
                BOUNDARY_GRID.append((_d, _w, _a))
GRID = GRID + [c for c in BOUNDARY_GRID if c not in GRID]


def shards(tier, seed):
    draws = 10 if tier == "quick" else 100
    out = [(c, draws, s) for c, s in zip(chunk(GRID, ncpu()), split_seeds(seed * 1000 + 15, ncpu()))]
    # the interchange format must not depend on the process locale: a slice of the grid is re-run in a child
    # interpreter whose preferred encoding is ASCII (LC_ALL=C, UTF-8 mode and locale coercion switched off)
    rng = random.Random(seed * 1000 + 151)
    out.append((rng.sample(GRID, 12 if tier == "quick" else 60), 3 if tier == "quick" else 10, seed + 152, "spawn-ascii-locale"))
    return out


def min_required(tier):
    return {"configurations": len(GRID), "files_compared": 2000}


def run_in_ascii_locale(cfgs, draws, sub_seed):
    import json
    import subprocess
    import sys
    from ..common import VERIF_ROOT, SRC
    res = ShardResult()
    code = ("import sys, json; sys.path.insert(0, %r); from hsverif.common import load_repo; load_repo(); "
            "from hsverif.props import C15; r = C15.run_shard(%r, %d, %d, 'inside-ascii-locale'); "
            "print('RESULT ' + json.dumps({'ev': r.evaluations, 'distinct': sorted(r.distinct), 'viol': r.violations, "
            "'counters': {k: v for k, v in r.counters.items() if isinstance(v, int)}, 'enc': __import__('locale').getpreferredencoding(False)}))"
            % (VERIF_ROOT, [list(c) for c in cfgs], draws, sub_seed))
    env = dict(os.environ, LC_ALL="C", LANG="C", PYTHONUTF8="0", PYTHONCOERCECLOCALE="0", HSVERIF_SRC=SRC, PYTHONIOENCODING="ascii:backslashreplace")
    p = subprocess.run([sys.executable, "-c", code], capture_output=True, text=True, timeout=900, env=env)
    line = [ln for ln in p.stdout.splitlines() if ln.startswith("RESULT ")]
    if p.returncode != 0 or not line:
        res.inconclusive.append("child interpreter in the ASCII locale failed: " + (p.stderr or "")[-400:])
        return res
    d = json.loads(line[-1][7:])
    if d["enc"].lower().replace("-", "") in ("utf8",):
        res.notes.append("the child interpreter still reported UTF-8 as preferred encoding; the locale slice adds nothing on this platform")
    res.evaluations = d["ev"]
    res.distinct = {"ascii-locale:" + x for x in d["distinct"]}
    for sig, wit in d["viol"]:
        sig["locale"] = "ascii"
        res.violation(sig, wit)
    res.count("evaluations_in_ascii_locale", d["ev"])
    for k, v in d["counters"].items():
        res.count(k, v)
    return res


def run_shard(cfgs, draws, sub_seed, locale_mode=None):
    if locale_mode == "spawn-ascii-locale":
        return run_in_ascii_locale(cfgs, draws, sub_seed)
    res = ShardResult()
    FHS = load_repo()["FileHashStore"]
    rng = random.Random(sub_seed)
    scratch = new_scratch("c15")
    try:
        for (d, w, a) in cfgs:
            if not locale_mode:
                res.count("configurations")
            for r in range(draws):
                ns = rng.choice([DEFAULT_NS, "urn:x:" + adversarial_id(rng, 8).replace("\x00", ""), rng.choice(ODD_NS)])
                if locale_mode:
                    ns = DEFAULT_NS     # (hashstore.yaml is read back by the harness in the child's locale)
                lay = Layout(d, w, a, ns)
                root = os.path.join(scratch, "s")
                pids = []
                while len(pids) < 3:
                    p = adversarial_id(rng, 30) if rng.random() < 0.7 else "doi:10.18739/A2" + str(rng.randrange(10**6))
                    if p not in pids:
                        pids.append(p)
                fmt = adversarial_id(rng, 20)
                if rng.random() < 0.3:
                    # format ids may contain whitespace (only all-blank ones are rejected); H is taken of pid+format as given
                    fmt = rng.choice([" " + fmt, fmt + " ", fmt[:1] + " " + fmt[1:], "\t" + fmt])
                cA = make_content(rng.getrandbits(30), rng.choice([0, 1, 100, 9000]))
                cB = make_content(rng.getrandbits(30), rng.choice([2, 4097]))
                if cA == cB:
                    cB += b"x"
                files = {}
                for name, data in (("A", cA), ("B", cB), ("m1", b"<m1/>"), ("m2", make_content(5, 8200)), ("m3", b"")):
                    files[name] = os.path.join(scratch, "in_" + name)
                    with open(files[name], "wb") as f:
                        f.write(data)
                witness = {"engine": "C15", "config": [d, w, a, ns], "pids": pids, "fmt": fmt,
                           "sizes": [len(cA), len(cB)]}
                try:
                    st = FHS({"store_path": root, "store_depth": d, "store_width": w, "store_algorithm": a,
                              "store_metadata_namespace": ns})
                except Exception as err:  # noqa
                    if ns != DEFAULT_NS and isinstance(err, (ValueError, TypeError)):
                        # a store may restrict the namespaces it accepts (a deliberate refusal): no verdict
                        res.count("unusual_namespace_refused_at_creation")
                    else:
                        witness["error"] = repr(err)[:300]
                        res.violation({"symptom": "store-creation-failed", "error": type(err).__name__,
                                       "namespace": "default" if ns == DEFAULT_NS else "unusual"}, witness)
                    rmtree(root)
                    continue
                try:
                    st.store_object(pids[0], files["A"])
                    st.store_object(pids[1], files["A"])
                    st.store_object(pids[2], files["B"])
                    st.store_metadata(pids[0], files["m1"])
                    st.store_metadata(pids[0], files["m2"], fmt)
                    st.store_metadata(pids[2], files["m3"], fmt)
                    st.delete_object(pids[1])
                except Exception as err:  # noqa
                    witness["error"] = repr(err)[:300]
                    res.violation({"symptom": "script-call-failed", "error": type(err).__name__}, witness)
                    rmtree(root)
                    continue
                cidA, cidB = lay.cid_of(cA), lay.cid_of(cB)
                expect = {
                    lay.obj_rel(cidA): cA,
                    lay.obj_rel(cidB): cB,
                    lay.pidref_rel(pids[0]): cidA.encode(),
                    lay.pidref_rel(pids[2]): cidB.encode(),
                    lay.cidref_rel(cidA): (pids[0] + "\n").encode("utf-8"),
                    lay.cidref_rel(cidB): (pids[2] + "\n").encode("utf-8"),
                    lay.meta_rel(pids[0]): b"<m1/>",
                    lay.meta_rel(pids[0], fmt): make_content(5, 8200),
                    lay.meta_rel(pids[2], fmt): b"",
                }
                got, _dirs = walk_files(root)
                yml = got.pop("hashstore.yaml", None)
                res.evaluations += 1
                res.count("files_compared", len(expect))
                res.distinct.add(repr((d, w, a, r)))
                if got != expect:
                    witness["missing"] = sorted(set(expect) - set(got))[:6]
                    witness["unexpected"] = sorted(set(got) - set(expect))[:6]
                    witness["content_differs"] = sorted(k for k in set(got) & set(expect) if got[k] != expect[k])[:6]
                    kind = "path" if (witness["missing"] or witness["unexpected"]) else "content"
                    res.violation({"symptom": "layout-differs:" + kind}, witness)
                try:
                    y = yaml.safe_load(yml.decode("utf-8"))
                    want = {"store_depth": d, "store_width": w, "store_algorithm": a, "store_metadata_namespace": ns}
                    bad = {k: (y.get(k), v) for k, v in want.items() if y.get(k) != v}
                    if bad or "store_default_algo_list" not in y:
                        witness["yaml"] = repr(bad)
                        res.violation({"symptom": "hashstore.yaml-differs"}, witness)
                except Exception as err:  # noqa
                    res.violation({"symptom": "hashstore.yaml-unreadable"}, witness)
                if len(res.samples) < 2:
                    res.sample({"config": [d, w, a], "pids": pids, "paths": sorted(expect)[:4]})
                rmtree(root)
            clear_atexit_tmp_handlers()
    finally:
        rmtree(scratch)
    return res


REPLAY_BY_RERUN = True     # (see runner.run_property: the recorded tier / seed workload is re-executed)


def replay(witness):
    raise NotImplementedError("replayed by re-running the recorded workload")
