"""C15 - on-disk layout follows the published HashStore layout for every configuration."""

import os
import random

import yaml

from ..absstate import Layout, walk_files
from ..common import STORE_ALGOS, DEFAULT_NS, new_scratch, rmtree, split_seeds, ncpu, load_repo, clear_atexit_tmp_handlers
from ..gen import chunk, make_content, adversarial_id
from ..runner import ShardResult

ID = "C15"
LEVEL = "exploration"
RULE = ("ALL configurations depth 1-6 x width 1-4 with depth*width <= 24 x 5 store algorithms (exhaustive grid), "
        "each with r random pid / format / content draws (r=10 quick, 100 thorough; pids incl. non-ASCII and "
        "path-like strings). Script: store_object of two pids sharing one content and one pid with other content, "
        "three metadata documents (default and explicit format), one delete_object. Oracle: the set of (relative "
        "path, bytes) under the store root equals the set computed by an independent implementation of the README "
        "layout (shard = depth tokens of width characters + remainder; H = store algorithm over UTF-8), pid ref == "
        "cid exactly, cid list == 'pid\\n' lines, hashstore.yaml (parsed) carries the documented keys/values. "
        "distinct_nontrivial = distinct (depth, width, algorithm, draw).")
ASSUMPTIONS = ["README 'What does HashStore look like?' is the layout specification"]
EXHAUSTIVE = {"quick": True, "thorough": True}

GRID = [(d, w, a) for d in range(1, 7) for w in range(1, 5) if d * w <= 24 for a in STORE_ALGOS]


def shards(tier, seed):
    draws = 10 if tier == "quick" else 100
    return [(c, draws, s) for c, s in zip(chunk(GRID, ncpu()), split_seeds(seed * 1000 + 15, ncpu()))]


def min_required(tier):
    return {"configurations": len(GRID), "files_compared": 2000}


def run_shard(cfgs, draws, sub_seed):
    res = ShardResult()
    FHS = load_repo()["FileHashStore"]
    rng = random.Random(sub_seed)
    scratch = new_scratch("c15")
    try:
        for (d, w, a) in cfgs:
            res.count("configurations")
            for r in range(draws):
                ns = rng.choice([DEFAULT_NS, "urn:x:" + adversarial_id(rng, 8).replace("\x00", "")])
                lay = Layout(d, w, a, ns)
                root = os.path.join(scratch, "s")
                pids = []
                while len(pids) < 3:
                    p = adversarial_id(rng, 30) if rng.random() < 0.7 else "doi:10.18739/A2" + str(rng.randrange(10**6))
                    if p not in pids:
                        pids.append(p)
                fmt = adversarial_id(rng, 20)
                if rng.random() < 0.3:
                    # format ids may contain whitespace (only all-blank ones are rejected); H is taken of pid+format as given
                    fmt = rng.choice([" " + fmt, fmt + " ", fmt[:1] + " " + fmt[1:], "\t" + fmt])
                cA = make_content(rng.getrandbits(30), rng.choice([0, 1, 100, 9000]))
                cB = make_content(rng.getrandbits(30), rng.choice([2, 4097]))
                if cA == cB:
                    cB += b"x"
                files = {}
                for name, data in (("A", cA), ("B", cB), ("m1", b"<m1/>"), ("m2", make_content(5, 8200)), ("m3", b"")):
                    files[name] = os.path.join(scratch, "in_" + name)
                    with open(files[name], "wb") as f:
                        f.write(data)
                st = FHS({"store_path": root, "store_depth": d, "store_width": w, "store_algorithm": a,
                          "store_metadata_namespace": ns})
                witness = {"engine": "C15", "config": [d, w, a, ns], "pids": pids, "fmt": fmt,
                           "sizes": [len(cA), len(cB)]}
                try:
                    st.store_object(pids[0], files["A"])
                    st.store_object(pids[1], files["A"])
                    st.store_object(pids[2], files["B"])
                    st.store_metadata(pids[0], files["m1"])
                    st.store_metadata(pids[0], files["m2"], fmt)
                    st.store_metadata(pids[2], files["m3"], fmt)
                    st.delete_object(pids[1])
                except Exception as err:  # noqa
                    witness["error"] = repr(err)[:300]
                    res.violation({"symptom": "script-call-failed", "error": type(err).__name__}, witness)
                    rmtree(root)
                    continue
                cidA, cidB = lay.cid_of(cA), lay.cid_of(cB)
                expect = {
                    lay.obj_rel(cidA): cA,
                    lay.obj_rel(cidB): cB,
                    lay.pidref_rel(pids[0]): cidA.encode(),
                    lay.pidref_rel(pids[2]): cidB.encode(),
                    lay.cidref_rel(cidA): (pids[0] + "\n").encode("utf-8"),
                    lay.cidref_rel(cidB): (pids[2] + "\n").encode("utf-8"),
                    lay.meta_rel(pids[0]): b"<m1/>",
                    lay.meta_rel(pids[0], fmt): make_content(5, 8200),
                    lay.meta_rel(pids[2], fmt): b"",
                }
                got, _dirs = walk_files(root)
                yml = got.pop("hashstore.yaml", None)
                res.evaluations += 1
                res.count("files_compared", len(expect))
                res.distinct.add(repr((d, w, a, r)))
                if got != expect:
                    witness["missing"] = sorted(set(expect) - set(got))[:6]
                    witness["unexpected"] = sorted(set(got) - set(expect))[:6]
                    witness["content_differs"] = sorted(k for k in set(got) & set(expect) if got[k] != expect[k])[:6]
                    kind = "path" if (witness["missing"] or witness["unexpected"]) else "content"
                    res.violation({"symptom": "layout-differs:" + kind}, witness)
                try:
                    y = yaml.safe_load(yml.decode("utf-8"))
                    want = {"store_depth": d, "store_width": w, "store_algorithm": a, "store_metadata_namespace": ns}
                    bad = {k: (y.get(k), v) for k, v in want.items() if y.get(k) != v}
                    if bad or "store_default_algo_list" not in y:
                        witness["yaml"] = repr(bad)
                        res.violation({"symptom": "hashstore.yaml-differs"}, witness)
                except Exception as err:  # noqa
                    res.violation({"symptom": "hashstore.yaml-unreadable"}, witness)
                if len(res.samples) < 2:
                    res.sample({"config": [d, w, a], "pids": pids, "paths": sorted(expect)[:4]})
                rmtree(root)
            clear_atexit_tmp_handlers()
    finally:
        rmtree(scratch)
    return res


def replay(witness):
    res = ShardResult()
    print(witness)
    res.evaluations = 1
    res.inconclusive.append("C15 witnesses are self-describing; re-run the check with the same VERIF_SEED to reproduce")
    return res
