"""C05 - reference bookkeeping is exact after every completed call."""

import itertools
import os
import random

from .. import suiteengine
from ..common import new_scratch, rmtree, split_seeds, clear_atexit_tmp_handlers, ncpu
from ..gen import make_content, object_menu, random_object_op, random_meta_op, op_shape, chunk
from ..runner import ShardResult
from ..seqengine import World, WorldPool, finding_signature

ID = "C05"
LEVEL = "exploration"
RULE = ("bounded-exhaustive: every sequence of length <= L (L=3 quick, 4 thorough) over a 26-operation menu "
        "(pids p/pq/q - prefix related -, contents A/B, store with and without pid, tag to existing / other "
        "/ never-stored cid, delete, delete_if_invalid right/wrong, store with wrong checksum/size) plus "
        "seeded random sequences of length 40 over the full public API (incl. metadata, reads, all data "
        "kinds, 12 algorithms; a third of them in other store configurations: depth 1/2/5, width 1/3/4, all five "
        "store algorithms; the instance is re-created now and then and two instances on the same directory are used "
        "alternately); after EVERY call the store directory is abstracted and compared with the "
        "reference model (pid refs, cid lists as multisets of lines, objects, metadata, no tmp / *_delete "
        "residue, structural invariant). distinct_nontrivial = distinct (model state, operation shape) "
        "transitions in which the state is non-empty.")
ASSUMPTIONS = ["the 200-line reference model in hsverif/model.py states what the property demands; it is "
               "cross-checked against the implementation on every run"]
EXHAUSTIVE = {"quick": False, "thorough": False}

PIDS = ["p", "pq", "q"]
SPEC = {"A": {"cseed": 11, "size": 700}, "B": {"cseed": 12, "size": 9000}}


def relevant(f):
    if f.tag.startswith("state:"):
        return True
    return f.tag == "outcome" and f.op["op"] == "delete"


def shards(tier, seed):
    menu = object_menu(PIDS, ["A", "B"])
    L = 3 if tier == "quick" else 4
    n = ncpu()
    # exhaustive part: split on the first operation(s)
    firsts = list(range(len(menu)))
    out = [("exh", L, fs, 0) for fs in chunk(firsts, n * 2)]
    nrand = 240 if tier == "quick" else 6000
    for i, s in enumerate(split_seeds(seed * 1000 + 5, n)):
        out.append(("rand", nrand // n, None, s))
    out.append(("suite", 0, None, 0))
    # long lives of ONE instance (state that accumulates over many calls: caches, counters, growing lists)
    for s in split_seeds(seed * 1000 + 55, 2 if tier == "quick" else 8):
        out.append(("soak", 1200 if tier == "quick" else 6000, None, s))
    return out


def min_required(tier):
    return {"evaluations": 5000, "model_comparisons": 10000}


def _run_seq(pool, ops, res, pids=PIDS, fmts=(None,), rng=None):
    w = pool.fresh(pids=pids, fmts=fmts)
    before = None
    stores = [w.store]
    for i, op in enumerate(ops):
        if rng is not None:
            r = rng.random()
            if r < 0.08:
                # a fresh instance on the same directory (state must live on disk, not in the instance)
                w.reopen()
                stores = [w.store]
                res.count("reopens")
            elif r < 0.20:
                # two instances on one directory, used alternately
                if len(stores) == 1:
                    from ..common import open_store
                    stores.append(open_store(w.root, **w.cfg))
                w.store = stores[rng.randrange(2)]
                res.count("instance_switches")
        mkey = w.model.key()
        out, findings, _b, after = w.step(op, i, before=before)
        before = after
        res.count("model_comparisons")
        if mkey != ((), (), (), ()):
            res.distinct.add(str(hash((mkey, op_shape(op), out.brief()))))
        res.counters.setdefault("abstract_states", set()).add(hash(after.key()))
        if findings:
            rel = [f for f in findings if relevant(f)]
            for f in findings:
                if not relevant(f):
                    res.foreign[f.tag] = res.foreign.get(f.tag, 0) + 1
            if rel:
                f = rel[0]
                res.violation(finding_signature(f),
                              {"engine": "C05", "contents": SPEC, "ops": list(ops[:i + 1]),
                               "findings": [x.to_json() for x in rel[:4]]})
            return i + 1
    return len(ops)


DOCS = {"d1": b"<a/>", "d2": make_content(3, 9000), "d0": b""}


def run_shard(mode, n, firsts, sub_seed):
    res = ShardResult()
    if mode == "suite":
        # the repository's own tests as one more workload: the structural invariant must survive every public call
        suiteengine.run(res, ID)
        return res
    scratch = new_scratch("c05")
    contents = {k: make_content(v["cseed"], v["size"]) for k, v in SPEC.items()}
    try:
        pool = WorldPool(scratch, contents, DOCS)
        if mode == "exh":
            menu = object_menu(PIDS, ["A", "B"])
            L = n
            count = 0
            for first in firsts:
                for tail_len in range(0, L):
                    for tail in itertools.product(menu, repeat=tail_len):
                        ops = (menu[first],) + tail
                        _run_seq(pool, ops, res)
                        res.evaluations += 1
                        count += 1
                        if count % 500 == 0:
                            clear_atexit_tmp_handlers()
                        if count == 7:
                            res.sample({"mode": "exhaustive", "ops": [op_shape(o) + ":" + str(o.get("pid")) for o in ops]})
        elif mode == "soak":
            rng = random.Random(sub_seed)
            pids = [f"s{i}" for i in range(10)] + ["s1.v2", "S1"]
            fmts = [None, "f1", "http://ns/x"]
            ops = []
            for _ in range(n):
                if rng.random() < 0.25:
                    ops.append(random_meta_op(rng, pids, fmts, list(DOCS)))
                else:
                    ops.append(random_object_op(rng, pids, ["A", "B"], kinds=("path", "file", "bytesio")))
            done = _run_seq(pool, ops, res, pids=pids, fmts=fmts, rng=None)
            res.evaluations += 1
            res.count("soak_calls_on_one_instance", done)
            res.sample({"mode": "soak", "calls": done})
        else:
            rng = random.Random(sub_seed)
            from ..common import STORE_ALGOS
            for k in range(n):
                if k % 3 == 1:
                    # configuration variety for the random sequences
                    rmtree(scratch)
                    os.makedirs(scratch, exist_ok=True)
                    from ..seqengine import path_spelling
                    sd = path_spelling(scratch, rng.randrange(4))
                    res.count("stores_reached_through_a_non_canonical_path", 1 if sd != "store" else 0)
                    pool = WorldPool(scratch, contents, DOCS, depth=rng.choice([1, 2, 5]), width=rng.choice([1, 3, 4]),
                                     algo=rng.choice(STORE_ALGOS), store_dir=sd)
                ops = []
                pids = PIDS + ["r", "\u00e9t\u00e9.\u65e5\u672c"]     # (one pid whose UTF-8 length differs from its str length)
                fmts = [None, "f1", "http://ns/x"]
                for _ in range(40):
                    if rng.random() < 0.25:
                        ops.append(random_meta_op(rng, pids, fmts, list(DOCS)))
                    else:
                        ops.append(random_object_op(rng, pids, ["A", "B"], kinds=("path", "Path", "file", "bytesio")))
                done = _run_seq(pool, ops, res, pids=pids, fmts=fmts, rng=rng)
                res.evaluations += 1
                if k == 0:
                    res.sample({"mode": "random", "ops": [op_shape(o) for o in ops[:12]], "executed": done})
                clear_atexit_tmp_handlers()
    finally:
        rmtree(scratch)
    return res


def replay(witness):
    res = ShardResult()
    scratch = new_scratch("c05r")
    contents = {k: make_content(v["cseed"], v["size"]) for k, v in witness["contents"].items()}
    w = World(scratch, contents, DOCS, pids=PIDS + ["r", "\u00e9t\u00e9.\u65e5\u672c"], fmts=[None, "f1", "http://ns/x"])
    before = None
    for i, op in enumerate(witness["ops"]):
        out, findings, _b, before = w.step(op, i, before=before)
        print(f"  step {i}: {op} -> {out.brief()} {out.msg or ''}")
        for f in findings:
            print(f"     finding {f.tag}: {f.detail}")
            if relevant(f):
                res.violation(finding_signature(f), witness)
    res.evaluations = 1
    rmtree(scratch)
    return res
