"""C17 - rejected and read-only calls change nothing."""

import io
import itertools
import os
import random

from .. import suiteengine
from ..absstate import snapshot
from ..common import (DEFAULT_NS, new_scratch, rmtree, split_seeds, ncpu, load_repo, call, open_store,
                      read_all_and_close, clear_atexit_tmp_handlers)
from ..gen import chunk, make_content
from ..runner import ShardResult

ID = "C17"
LEVEL = "exploration"
RULE = ("grammar of invalid values per parameter of every public method - identifiers {None, '', ' ', 'a b', 'a\\tb', "
        "'a\\n', '\\u2003x'}, algorithms {unsupported, '', ' ', 'sha 256'}, sizes {0, -1, '5', 5.0, True-like excluded}, "
        "checksum without algorithm and the reverse (None, '' and blank forms), data {None, 5, b'bytes', '', '  ', missing path, text-mode "
        "stream, list}, format_id {'  ', '\\t'}, object_metadata {None, dict, tuple}, unknown pids (never seen, or with metadata but no object) for "
        "retrieve / delete / get_hex_digest / retrieve_metadata - one bad parameter with all others valid, then all pairs "
        "of bad parameters, each issued from an empty store and from a populated store (objects shared by pids, "
        "metadata, an unreferenced object); thorough: up to 8 values per parameter in pairs, all triples of 3 values, and "
        "two more start states (depth 1 / width 1 / MD5 populated store; a store with a pid bound to a missing object). Plus the successful read-only calls. Oracle: exception class in the "
        "documented set AND the snapshot (relative path -> size, sha256; directory set) identical before/after. "
        "distinct_nontrivial = distinct (method, bad-parameter positions and values, state) cases.")
ASSUMPTIONS = ["'' as a format id is excluded (not a documented value)",
               "store_object(None, data) ignores validation arguments by design, so bad-argument cases carry a valid pid"]

BADARG = {"ValueError", "TypeError", "UnsupportedAlgorithm"}
UNKNOWN = {"PidRefsDoesNotExist"}

BAD_ID = [None, "", " ", "a b", "a\tb", "a\n", "\u2003x", "x\u00a0y",
          # more white space beyond the ASCII blank / tab / newline (characters with the Unicode White_Space property)
          "a\rb", "a\x0bb", "a\x0cb", "a\x85b", "\u2028x", "a\u3000"]
BAD_ALGO = ["sha999", "", " ", "sha 256", "md4", "SM3", "sha3256"]
BAD_SIZE = [0, -1, "5", 5.0, -10**9]
BAD_FMT = ["  ", "\t", "\n"]


def shards(tier, seed):
    cases = build_cases(tier)
    k = ncpu() if tier == "quick" else ncpu() * 2
    return [(c, s, tier) for c, s in zip(chunk(cases, k), split_seeds(seed * 1000 + 17, k))] + [("suite", 0, tier)]


def min_required(tier):
    return {"rejected_calls_snapshotted": 500, "readonly_calls_snapshotted": 40}


def build_cases(tier="quick"):
    """Each case: (method, {param: ('bad', value) | 'good'}, label). Built symbolically; concrete good values are
    filled in by the runner (they depend on scratch paths)."""
    P = {
        "store_object": {"pid": BAD_ID[1:], "data": ["@none", 5, b"bytes", "", "  ", "@missing", "@textstream", ["x"]],
                         "additional_algorithm": BAD_ALGO, "checksum_pair": ["@sum_only", "@algo_only", "@algo_bad", "@sum_blank", "@sum_empty_only", "@algo_empty_only",
                                           "@sum_empty_with_algo", "@sum_with_empty_algo"],
                         "expected_object_size": BAD_SIZE},
        "tag_object": {"pid": BAD_ID, "cid": BAD_ID},
        "delete_if_invalid_object": {"object_metadata": ["@none", {"cid": "x"}, ("a", "b")], "checksum": BAD_ID[:5],
                                     "checksum_algorithm": BAD_ALGO + [None], "expected_file_size": BAD_SIZE},
        "store_metadata": {"pid": BAD_ID, "metadata": ["@none", 5, b"bytes", "", "  ", "@missing"], "format_id": BAD_FMT},
        "retrieve_object": {"pid": BAD_ID + ["@unknown", "@metaonly", "@deleted"]},
        "retrieve_metadata": {"pid": BAD_ID + ["@unknown", "@deleted"], "format_id": BAD_FMT + ["@unknownfmt"]},
        "delete_object": {"pid": BAD_ID + ["@unknown", "@metaonly", "@deleted"]},
        "delete_metadata": {"pid": BAD_ID, "format_id": BAD_FMT},
        "get_hex_digest": {"pid": BAD_ID + ["@unknown", "@metaonly", "@deleted"], "algorithm": BAD_ALGO + [None]},
    }
    cases = []
    for m, params in P.items():
        names = list(params)
        for n in names:
            for v in params[n]:
                cases.append((m, {n: v}))
        width = 4 if tier == "quick" else 8
        for a, b in itertools.combinations(names, 2):
            for va in params[a][:width]:
                for vb in params[b][:width]:
                    cases.append((m, {a: va, b: vb}))
        if tier == "thorough":
            for a, b, c in itertools.combinations(names, 3):
                for va in params[a][:3]:
                    for vb in params[b][:3]:
                        for vc in params[c][:3]:
                            cases.append((m, {a: va, b: vb, c: vc}))
    return cases


def run_shard(cases, sub_seed, tier="quick"):
    res = ShardResult()
    if cases == "suite":
        suiteengine.run(res, ID)
        return res
    ns = load_repo()
    OM = ns["ObjectMetadata"]
    scratch = new_scratch("c17")
    try:
        dataA = make_content(171, 9000)
        dataB = make_content(172, 12)
        pa, pb, pdoc = (os.path.join(scratch, n) for n in ("A", "B", "doc"))
        open(pa, "wb").write(dataA)
        open(pb, "wb").write(dataB)
        open(pdoc, "wb").write(b"<doc/>")
        import hashlib
        states = {}
        state_names = ("empty", "populated") if tier == "quick" else ("empty", "populated", "populated-md5-1x1", "irregular")
        for state in state_names:
            root = os.path.join(scratch, "store_" + state)
            st = open_store(root, 1, 1, "MD5") if state == "populated-md5-1x1" else open_store(root)
            if state == "irregular":
                # states the public API itself can create: a pid bound to a cid without object, an unreferenced object
                st.store_object("k1", pa)
                st.tag_object("dangling", hashlib.sha256(b"never stored").hexdigest())
                st.store_object(None, pb)
                st.store_metadata("nobj", pdoc)
                st.store_metadata("k1", pdoc)
            if state in ("populated", "populated-md5-1x1"):
                st.store_object("k1", pa)
                st.store_object("k2", pa)
                st.store_object("k3", pb)
                st.store_object(None, pdoc)
                st.store_metadata("k1", pdoc)
                st.store_metadata("k1", pdoc, "fmt2")
                st.store_metadata("nobj", pdoc)
            if state != "empty":
                # a pid that lived, was read through every read-only call, and was deleted: it is unknown again
                st.store_object("gone", pb)
                st.store_metadata("gone", pdoc)
                st.store_metadata("gone", pdoc, "fmt2")
                for alg in ("sha256", "md5", "sha3_256"):
                    st.get_hex_digest("gone", alg)
                read_all_and_close(st.retrieve_object("gone"))
                read_all_and_close(st.retrieve_metadata("gone"))
                read_all_and_close(st.retrieve_metadata("gone", "fmt2"))
                st.delete_object("gone")
            states[state] = (root, st)
        meta_ok = OM("HashStoreNoPid", hashlib.sha256(dataA).hexdigest(), len(dataA),
                     {a: hashlib.new(a, dataA).hexdigest() for a in ("md5", "sha1", "sha256", "sha384", "sha512")})

        def concrete(method, bad, state):
            good = {
                "store_object": dict(pid="fresh.pid", data=pb, additional_algorithm=None, checksum=None,
                                     checksum_algorithm=None, expected_object_size=None),
                "tag_object": dict(pid="fresh.pid", cid=hashlib.sha256(dataA).hexdigest()),
                "delete_if_invalid_object": dict(object_metadata=meta_ok, checksum=hashlib.md5(dataA).hexdigest(),
                                                 checksum_algorithm="md5", expected_file_size=len(dataA)),
                "store_metadata": dict(pid="fresh.pid", metadata=pdoc, format_id="fmt9"),
                "retrieve_object": dict(pid="k1"),
                "retrieve_metadata": dict(pid="k1", format_id=None),
                "delete_object": dict(pid="k1"),
                "delete_metadata": dict(pid="k1", format_id="fmt2"),
                "get_hex_digest": dict(pid="k1", algorithm="sha256"),
            }[method]
            kw = dict(good)
            expected = set(BADARG)
            closers = []
            for name, v in bad.items():
                if name == "checksum_pair":
                    if v == "@sum_only":
                        kw["checksum"], kw["checksum_algorithm"] = "abcd", None
                    elif v == "@algo_only":
                        kw["checksum"], kw["checksum_algorithm"] = None, "md5"
                    elif v == "@algo_bad":
                        kw["checksum"], kw["checksum_algorithm"] = "abcd", "sha999"
                    elif v == "@sum_empty_only":
                        kw["checksum"], kw["checksum_algorithm"] = "", None
                    elif v == "@algo_empty_only":
                        kw["checksum"], kw["checksum_algorithm"] = None, ""
                    elif v == "@sum_empty_with_algo":
                        kw["checksum"], kw["checksum_algorithm"] = "", "md5"
                    elif v == "@sum_with_empty_algo":
                        kw["checksum"], kw["checksum_algorithm"] = "abcd", ""
                    else:
                        kw["checksum"], kw["checksum_algorithm"] = "  ", "md5"
                    continue
                if v == "@none":
                    v = None
                elif v == "@missing":
                    v = os.path.join(scratch, "no", "such", "file")
                elif v == "@textstream":
                    v = open(pb, "r", encoding="latin-1")
                    closers.append(v)
                elif v == "@unknown":
                    v = "never.stored.pid"
                    expected = expected | UNKNOWN | ({"ValueError"})
                elif v == "@deleted":
                    v = "gone"
                    expected = expected | UNKNOWN | ({"ValueError"})
                elif v == "@metaonly":
                    v = "nobj"          # a pid that has metadata documents but no object
                    expected = expected | UNKNOWN
                elif v == "@unknownfmt":
                    v = "no-such-format"
                kw[name] = v
            if method in ("retrieve_object", "get_hex_digest", "delete_object") and state == "empty":
                expected = expected | UNKNOWN
            if method == "retrieve_metadata" and state == "empty":
                expected = expected | {"ValueError"}
            return kw, expected, closers

        for i, (method, bad) in enumerate(cases):
            for state, (root, st) in states.items():
                if state == "empty" and method in ("delete_metadata",) and all(k == "format_id" for k in bad) is False:
                    pass
                kw, expected, closers = concrete(method, bad, state)
                before = snapshot(root)
                out = call(getattr(st, method), **kw)
                if out.ok and hasattr(out.value, "read"):
                    read_all_and_close(out.value)
                for c in closers:
                    c.close()
                after = snapshot(root)
                res.evaluations += 1
                res.count("rejected_calls_snapshotted")
                res.distinct.add(repr((method, sorted((k, repr(v)) for k, v in bad.items()), state)))
                wit = {"engine": "C17", "method": method, "bad": {k: repr(v) for k, v in bad.items()},
                       "state": state, "outcome": out.brief(), "msg": out.msg}
                shape = {"method": method, "bad_params": sorted(bad)}
                if out.ok:
                    res.violation(dict(shape, symptom="invalid-call-accepted"), wit)
                    # restore the populated state if the accepted call changed it
                    if after != before:
                        res.inconclusive.append("state drifted after an accepted invalid call; later cases in this shard are unreliable")
                        return res
                    continue
                if out.exc_name not in expected:
                    res.violation(dict(shape, symptom="undocumented-error-class", got=out.exc_name), wit)
                if after != before:
                    wit["files_diff"] = repr(sorted(set(after[0].items()) ^ set(before[0].items()))[:6])
                    wit["dirs_diff"] = repr(sorted(after[1] ^ before[1])[:6])
                    res.violation(dict(shape, symptom="rejected-call-changed-store",
                                       what="files" if after[0] != before[0] else "directories"), wit)
                    return res
                if i % 150 == 0 and state == "populated":
                    res.sample({"method": method, "bad": {k: repr(v) for k, v in bad.items()}, "outcome": out.brief()})
            if i % 100 == 0:
                clear_atexit_tmp_handlers()

        # successful read-only calls leave the store untouched
        root, st = states["populated"]
        for rep in range(3):
            for method, kw in (("retrieve_object", dict(pid="k1")), ("retrieve_object", dict(pid="k3")),
                               ("retrieve_metadata", dict(pid="k1")), ("retrieve_metadata", dict(pid="k1", format_id="fmt2")),
                               ("retrieve_metadata", dict(pid="nobj", format_id=DEFAULT_NS)),
                               ("get_hex_digest", dict(pid="k2", algorithm="SHA-512")),
                               ("get_hex_digest", dict(pid="k3", algorithm="blake2s")),
                               ("get_hex_digest", dict(pid="k1", algorithm="sha3_384"))):
                before = snapshot(root)
                out = call(getattr(st, method), **kw)
                if out.ok and hasattr(out.value, "read"):
                    read_all_and_close(out.value)
                after = snapshot(root)
                res.evaluations += 1
                res.count("readonly_calls_snapshotted")
                res.distinct.add(repr(("ro", method, sorted(kw.items()))))
                if not out.ok:
                    res.violation({"symptom": "read-only-call-failed", "method": method, "got": out.exc_name},
                                  {"engine": "C17", "method": method, "kw": kw, "msg": out.msg})
                elif after != before:
                    res.violation({"symptom": "read-only-call-changed-store", "method": method},
                                  {"engine": "C17", "method": method, "kw": kw})
    finally:
        rmtree(scratch)
    return res


REPLAY_BY_RERUN = True     # (see runner.run_property: the recorded tier / seed workload is re-executed)


def replay(witness):
    raise NotImplementedError("replayed by re-running the recorded workload")
