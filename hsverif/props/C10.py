"""C10 - a crash harms nothing else and never wedges the interrupted pid."""

import random

from .. import faultengine as F
from ..common import ncpu, split_seeds, new_scratch, rmtree, Inconclusive, clear_atexit_tmp_handlers, jsonable
from ..gen import chunk, op_shape
from ..runner import ShardResult
from .C13 import site_class

ID = "C10"
LEVEL = "fault_enumeration"
RULE = ("the 29 (start state, call) cases of C13 (incl. validated / stream stores and delete_if_invalid_object) (store_object new / duplicate / empty content, first / additional "
        "pid, cid with a list but no object; tag_object; delete_object sole / shared reference, with metadata, "
        "missing object; store_metadata create / overwrite; delete_metadata one / all; bystander pids share the "
        "subject's object and carry metadata; thorough: each case in 5 identifier / configuration variants - pid lengths "
        "1..35 incl. prefix-related and non-ASCII ones, depth 1-5, width 1-4, all five store algorithms). For each case a dry run lists the call's operations; for EVERY "
        "mutating operation (create, open-for-writing, rename, remove, mkdir, chmod, the flush half of an in-place "
        "truncate, the buffer flush at close) a child process is forked that performs the call and os._exit()s "
        "immediately before that operation (what SIGKILL leaves: no atexit, no buffers flushed); the parent then "
        "opens a FRESH instance. Oracle: every bystander's pid ref, retrieve bytes, membership exactly once in its "
        "own cid list and metadata documents as before; the interrupted pid is retrievable with complete correct "
        "bytes or reported not-found/inconsistent; delete_object(pid) succeeds or says unknown; store_object(pid, "
        "data) (same and different content) then succeeds and is retrievable, and so does a SECOND delete / store round "
        "(leftovers of the crash must not wedge the pid later either); afterwards LATER calls on every bystander "
        "(store_metadata, delete_metadata(all), retrieve_object, delete_object) must complete. distinct_nontrivial = distinct "
        "(case, crash point, recovery content) runs in which the child really died at the point.")
ASSUMPTIONS = ["crash = process death with the page cache intact (no power loss / fsync ordering)",
               "crash points are file-system operation boundaries plus the user-space buffer flush points exposed by the probe"]
EXHAUSTIVE = {"quick": True, "thorough": True}
SYMPTOMS = {"bystander-changed", "interrupted-pid-served-wrong-bytes", "interrupted-pid-served-other-content",
            "interrupted-pid-unexpected-error", "recovery-delete-failed", "recovery-store-failed",
            "recovery-store-not-retrievable", "bystander-changed-by-recovery", "recovery-store-metadata-failed",
            "bystander-later-call-failed", "second-recovery-round-failed"}
WATCHDOG_S = 3600


def shards(tier, seed):
    nvar = 1 if tier == "quick" else len(F.VARIANTS)
    idxs = [(ci, v) for v in range(nvar) for ci in range(len(F.CASES))]
    return [(c, tier, s) for c, s in zip(chunk(idxs, ncpu() * (1 if tier == "quick" else 2)),
                                         split_seeds(seed + 10, ncpu() * 2))]


def min_required(tier):
    return {"crash_points_hit": 200, "cases": len(F.CASES), "distinct_interrupted_pid_states": 3}


def run_shard(case_idxs, tier, sub_seed):
    res = ShardResult()
    states = set()
    for ci, variant in case_idxs:
        scratch = new_scratch("crash")
        try:
            case = F.Case(ci, scratch, variant=variant)
            sites = case.sites(F.CRASH_KINDS)
            if sites:
                res.count("cases")
            if not sites:
                if case.ops:
                    # the fault-free call legitimately changes nothing (e.g. delete_if_invalid_object on a referenced
                    # object): there is no crash state to generate
                    res.count("cases_without_mutating_operation")
                    res.count("cases")
                else:
                    res.inconclusive.append(f"case {case.label}: no operation intercepted (probe bypassed?)")
                continue
            res.count("crash_points_enumerated", len(sites))
            recov = ["X", "Z"] if case.call["op"] in ("store", "tag", "delete") and case.call.get("pid") else ["X"]
            # a process can also die INSIDE a descriptor-level write (os.write, os.sendfile): half of it is on disk
            mids = [("mid", i) for i in sites if case.ops[i].partial is not None]
            for site in sites + [len(case.ops)] + mids:
                mid = isinstance(site, tuple)
                if mid:
                    site = site[1]
                for rc in recov:
                    code = F.run_crash(case, site, mid=mid)
                    if code == 77:
                        res.count("crash_points_hit")
                    elif code == 79 and mid:
                        res.count("crash_points_inside_a_descriptor_write")
                    elif code == 0 and site == len(case.ops):
                        res.count("completed_runs")
                    else:
                        res.count("child_exit_other")
                        res.inconclusive.append(f"case {case.label} site {site}: child exit status {code}")
                        continue
                    probs, label = F.judge_crash(case, rc)
                    states.add(label)
                    res.evaluations += 1
                    res.distinct.add(repr((ci, variant, site, rc, mid)))
                    op = case.ops[site] if site < len(case.ops) else None
                    for symptom, detail in probs:
                        sig = {"symptom": symptom, "call": op_shape(case.call), "case": case.label,
                               "crash_before": (("inside:" if mid else "") + site_class(case, op)) if op else "after-call", "interrupted_pid_state": label}
                        if symptom.startswith("bystander-changed"):
                            sig["changed_fields"] = changed_fields(detail)
                        wit = {"engine": "crash", "case_index": ci, "variant": variant, "case": case.label, "start": case.start_name,
                               "call": case.call, "site": site, "mid": mid, "crash_before": op.describe(case.rundir) if op else "after-call",
                               "recovery_content": rc, "detail": jsonable(detail)}
                        if symptom in SYMPTOMS:
                            res.violation(sig, wit)
                        else:
                            res.foreign[symptom] = res.foreign.get(symptom, 0) + 1
                    if len(res.samples) < 2 and op is not None and op.kind == "rename":
                        res.sample({"case": case.label, "crash_before": op.describe(case.rundir),
                                    "interrupted_pid": label, "recovery": rc, "problems": [p[0] for p in probs]})
            clear_atexit_tmp_handlers()
        except Inconclusive as inc:
            res.inconclusive.append(str(inc))
        finally:
            rmtree(scratch)
    res.counters["distinct_interrupted_pid_states"] = states
    return res


def changed_fields(detail):
    b, a = detail.get("before", {}), detail.get("after", {})
    out = []
    for k in sorted(set(b) | set(a)):
        if b.get(k) != a.get(k):
            out.append(f"{k}:{b.get(k)}->{a.get(k)}" if k == "listed" else k)
    return out


def replay(witness):
    res = ShardResult()
    scratch = new_scratch("crashr")
    try:
        case = F.Case(witness["case_index"], scratch, variant=witness.get("variant", 0))
        print("case:", case.label, "| start:", case.start_name, "| call:", case.call)
        for i, op in enumerate(case.ops):
            mark = " <== process dies before this operation" if i == witness["site"] else ""
            print(f"   {i:3d} {op.describe(case.rundir)}{mark}")
        code = F.run_crash(case, witness["site"], mid=witness.get("mid", False))
        print("child exit status:", code)
        print("directory left behind:", case.abstract(case.rundir).describe())
        probs, label = F.judge_crash(case, witness["recovery_content"])
        print("interrupted pid:", label)
        op = case.ops[witness["site"]] if witness["site"] < len(case.ops) else None
        for symptom, detail in probs:
            print("problem:", symptom, jsonable(detail))
            if symptom in SYMPTOMS:
                sig = {"symptom": symptom, "call": op_shape(case.call), "case": case.label,
                       "crash_before": site_class(case, op) if op else "after-call",
                       "interrupted_pid_state": label}
                if symptom.startswith("bystander-changed"):
                    sig["changed_fields"] = changed_fields(detail)
                res.violation(sig, witness)
        res.evaluations = 1
    finally:
        rmtree(scratch)
    return res
