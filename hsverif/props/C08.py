"""C08 - calls always terminate and never leave an identifier locked."""

import random

from .. import concprops as P
from ..common import ncpu, split_seeds
from ..gen import chunk

ID = "C08"
LEVEL = "exploration"
RULE = ("(a) controlled schedules: every object-pair and metadata-pair scenario of C07/C12 in which two calls touch "
        "one identifier (pid, cid or metadata document), plus sampled triples, run under the cooperative scheduler "
        "that owns every blocking primitive (the store's four condition variables, flock): all schedules with <= c "
        "preemptions (c=1 quick / 2 thorough) + random walks, plus random / PCT schedules with statement-level yield points "
        "(sys.monitoring LINE events). Verdict by STATE, never by time: a run in which some "
        "thread is unfinished and none is runnable is a deadlock; at quiescence the four locked-identifier lists "
        "must be empty and no mutex owned; then store_metadata + delete_object on every pid involved must complete "
        "(a wait() there would block forever and is reported). (b) fault runs: for every single call of the C13 "
        "call list an OSError is injected at each fault site in turn (one-off and persistent); afterwards the same "
        "hygiene checks and follow-up calls run. (c) fault under contention: 9 two-call scenarios on one pid / cid / "
        "document; for each call and each of its fault sites an OSError is injected into that call while the other "
        "call runs concurrently under the scheduler (sequential order, preemption-bounded DFS in the thorough tier, "
        "random schedules) - a failing call must wake and not starve a waiter. distinct_nontrivial = distinct (scenario, interleaving) pairs + "
        "distinct (call, start state, fault site, errno, persistence) fault runs.")
ASSUMPTIONS = ["every wait loop's predicate is membership in a locked list, so empty lists imply no future waiter can block",
               "the wall-clock watchdog only yields 'inconclusive'"]
SYMPTOMS = {"deadlock", "leaked-lock", "follow-up-blocked", "call-does-not-terminate"}
WATCHDOG_S = 7200


def shards(tier, seed):
    rng = random.Random(seed * 1000 + 8)
    objs = [s.to_json() for s in P.object_pair_scenarios()]
    metas = [s.to_json() for s in P.meta_pair_scenarios()]
    triples = [s.to_json() for s in P.object_triple_scenarios(rng, 24 if tier == "quick" else 400)] + \
              [s.to_json() for s in P.meta_triple_scenarios(rng, 24 if tier == "quick" else 400)]
    if tier == "quick":
        # the dedicated slice: a seeded half of the pair scenarios per run (C07/C12 run all of them)
        rng.shuffle(objs)
        rng.shuffle(metas)
        objs = objs[: len(objs) // 2]
        metas = metas[: len(metas) // 2]
    allp = objs + metas
    rng.shuffle(allp)
    n = ncpu()
    out = []
    bound = 1 if tier == "quick" else 2
    for c, s in zip(chunk(allp, n * 2), split_seeds(seed + 8, n * 2)):
        out.append(("conc", c, bound, 4 if tier == "quick" else 20, 0, s, None))
    for c, s in zip(chunk(triples, n), split_seeds(seed + 81, n)):
        out.append(("conc", c, 0 if tier == "quick" else 1, 8, 8 if tier == "quick" else 60, s, 1 if tier == "quick" else 300))
    line_scns = list(allp)
    for c, s in zip(chunk(line_scns[:96] if tier == "quick" else line_scns, n), split_seeds(seed + 83, n)):
        out.append(("line", c, 6 if tier == "quick" else 40, 0, s))
    for c, s in zip(chunk(line_scns, n), split_seeds(seed + 84, n)):
        out.append(("line", c, 0, 6 if tier == "quick" else 80, s))
    # (c) an I/O fault in one call WHILE another call contends for the same identifier
    for i, s in enumerate(split_seeds(seed + 85, len(FAULT_CONC))):
        out.append(("faultconc", i, 0 if tier == "quick" else 1, 10 if tier == "quick" else 30, s))
    try:
        from . import C13
        out += [("fault",) + a for a in C13.fault_shards(tier, seed)]
    except ImportError:
        pass
    return out


def min_required(tier):
    return {"schedules": 5000, "schedules_with_a_waiting_thread": 300, "hygiene_checks": 5000}


FAULT_CONC = [
    ("p1.v2->X", [P.st("p1.v2", "X")], [P.st("p1", "X"), P.st("p2", "X")], "object"),
    ("p2->X", [P.st("p2", "X")], [P.tag("p1", "X"), P.dele("p2")], "object"),
    ("p1->X", [P.st("p1", "X")], [P.st("p1", "Y"), P.dele("p1")], "object"),
    ("p1,p2->X", [P.st("p1", "X"), P.st("p2", "X")], [P.dele("p1"), P.dele("p2")], "object"),
    ("X-unreferenced", [P.st(None, "X")], [P.tag("p1", "X"), P.dii("X", False)], "object"),
    ("present/bound", P.META_STARTS["present/bound"], [P.sm("f1", "v1"), P.sm("f1", "v2")], "meta"),
    ("present/bound", P.META_STARTS["present/bound"], [P.dm(None), P.sm("f1", "v2")], "meta"),
    ("present/bound", P.META_STARTS["present/bound"], [P.dele("p1"), P.dm(None)], "meta"),
    ("present/unbound", P.META_STARTS["present/unbound"], [P.dm("f1"), P.dm(None)], "meta"),
]


def run_faultconc(idx, bound, n_random, sub_seed):
    import errno
    from .. import concengine as C
    from ..common import new_scratch, rmtree, Inconclusive
    from ..runner import ShardResult
    from ..gen import op_shape
    res = ShardResult()
    rng = random.Random(sub_seed)
    sname, start, calls, kind = FAULT_CONC[idx]
    scn = C.Scenario(f"{sname}|" + "||".join(P.call_name(o) for o in calls) + "|+fault", start, calls, P.SPEC,
                     P.DOCS if kind == "meta" else None, pids=["p1", "p2", "p1.v2"] if kind == "object" else ["p1"],
                     fmts=[None] if kind == "object" else [None, "f1", "f2", "followup"], start_class=sname)
    scratch = new_scratch("fc")
    try:
        runner = C.ScenarioRunner(scn, scratch)
        sites = set()
        import itertools as _it
        code = rng.choice([errno.EIO, errno.ENOSPC, errno.EACCES])
        # one-off failures and failures that persist for the destination (a move is then not rescued by its copy fall-back)
        modes = (bool(idx % 2),) if bound == 0 else (False, True)
        def tagged(m):
            for item in C.explore_with_faults(runner, rng, bound, n_random, code, persistent=m):
                yield item + (m,)
        for ob, probs, wk, k, pers in _it.chain.from_iterable(tagged(m) for m in modes):
            res.evaluations += 1
            res.count("schedules")
            res.count("fault_under_contention_schedules")
            res.count("hygiene_checks")
            if any(st_["wait"] for st_ in ob.cond_stats.values()):
                res.count("schedules_with_a_waiting_thread")
            sites.add((wk, k))
            res.distinct.add(str(hash((scn.name, wk, k, tuple(ob.trace)))))
            for symptom, detail in probs:
                sig = {"symptom": symptom, "calls": sorted(op_shape(o) for o in scn.calls), "start": sname,
                       "faulted_call": op_shape(scn.calls[wk]), "fault_site": (ob.fault_fired or "").split(":")[0] + ":" +
                       "/".join((ob.fault_fired or "::").split(":")[2].split("/")[:2])}
                wit = C.witness(runner, ob, symptom, detail)
                wit.update(fault={"worker": wk, "site": k, "operation": ob.fault_fired, "errno": code, "persistent": pers})
                if symptom in SYMPTOMS:
                    res.violation(sig, wit)
                else:
                    res.foreign[symptom] = res.foreign.get(symptom, 0) + 1
        res.count("fault_sites_under_contention", len(sites))
        res.count("scenarios")
        res.sample({"scenario": scn.name, "fault_sites": len(sites), "schedules": res.evaluations})
    except Inconclusive as inc:
        res.inconclusive.append(f"{scn.name}: {inc}")
    finally:
        rmtree(scratch)
    return res


def run_shard(kind, *args):
    if kind == "faultconc":
        return run_faultconc(*args)
    if kind == "line":
        scns, n_line, n_sync, sub_seed = args
        res = P.run_scenarios(scns, 0, 0, 0, sub_seed, SYMPTOMS, n_line=n_line, n_sync=n_sync, skip_dfs=True)
        res.count("hygiene_checks", res.counters.get("schedules", 0))
        return res
    if kind == "conc":
        scns, bound, n_random, pct, sub_seed, budget = args
        res = P.run_scenarios(scns, bound, n_random, pct, sub_seed, SYMPTOMS, budget=budget)
        res.count("hygiene_checks", res.counters.get("schedules", 0))
        return res
    from . import C13
    return C13.run_fault_shard(*args, symptoms=SYMPTOMS, owner="C08")


def replay(witness):
    if witness.get("engine") == "fault":
        from . import C13
        return C13.replay(witness, symptoms=SYMPTOMS)
    if witness.get("engine") == "conc" and witness.get("fault"):
        from .. import concengine as C
        return P.replay_fault_witness(witness, lambda runner, ob: [p for p in C.hygiene_problems(runner, ob) if p[0] in SYMPTOMS])
    return P.replay_witness(witness, SYMPTOMS)
