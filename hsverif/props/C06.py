"""C06 - validation verdict is exactly 'size and checksum match the content'."""

import itertools
import random

from .. import suiteengine
from ..common import ALL_ALGOS, new_scratch, rmtree, split_seeds, clear_atexit_tmp_handlers, ncpu
from ..gen import make_content, op_shape, chunk
from ..model import SPELLINGS
from ..runner import ShardResult
from ..seqengine import WorldPool, finding_signature, seq_witness, seq_replay

ID = "C06"
LEVEL = "exploration"
RULE = ("product of: content {0 B, 1 B, 20001 B} x 12 algorithms x accepted spellings x checksum {correct lower, "
        "correct UPPER, mixed case, wrong digit, wrong length, absent} x size {correct, wrong, absent} x prior "
        "state {content absent, present unreferenced, present and referenced by another pid} x entry point "
        "{store_object(pid, ...) through path or stream; delete_if_invalid_object with an ObjectMetadata carrying "
        "the default digests only, or also the named algorithm}. thorough = the full product, quick = a seeded "
        "stratified sample (every algorithm x checksum mode x entry point x prior state at least once). Oracle: "
        "each shard runs in its own store configuration (shard shape, one of the five store algorithms); "
        "independent verdict = size matches and lower(checksum) == hashlib digest; valid -> normal return, pid "
        "bound (store) and nothing deleted; invalid -> NonMatchingChecksum/NonMatchingObjSize, pid not bound, no "
        "tmp residue, no new object (store) / object removed iff unreferenced (delete_if_invalid). "
        "distinct_nontrivial = distinct (content, algorithm, spelling, checksum mode, size mode, prior, entry).")
ASSUMPTIONS = ["expected size 0 is an argument error by contract, so 'correct size' is skipped for empty content"]
EXHAUSTIVE = {"quick": False, "thorough": True}

SPEC = {"e": {"cseed": 61, "size": 0}, "one": {"cseed": 62, "size": 1}, "big": {"cseed": 63, "size": 20001},
        "unrelated": {"cseed": 64, "size": 17}}
SUMS = ["ok", "upper", "mixed", "wrong", "wronglen", "none", "numeric_0x", "numeric_padded", "numeric_underscore",
        "numeric_plus", "numeric_zero_dropped"]
SIZES = ["ok", "wrong", "none"]
PRIORS = ["absent", "unref", "ref"]
ENTRIES = ["store:path", "store:bytesio", "dii:default", "dii:with_calgo"]


def relevant(f):
    return f.tag == "outcome" or f.tag.startswith("state:")


def all_cases():
    out = []
    for content in ("e", "one", "big"):
        for algo in ALL_ALGOS:
            for sp in SPELLINGS[algo]:
                for cs, sz, prior, entry in itertools.product(SUMS, SIZES, PRIORS, ENTRIES):
                    if cs == "none" and sz == "none":
                        continue
                    if content == "e" and sz == "ok":
                        continue
                    if entry.startswith("dii") and (sz == "none" or cs == "none"):
                        continue
                    out.append((content, algo, sp, cs, sz, prior, entry))
    return out


def shards(tier, seed):
    cases = all_cases()
    if tier == "quick":
        rng = random.Random(seed * 1000 + 6)
        strata = {}
        for c in cases:
            strata.setdefault((c[1], c[3], c[5], c[6].split(":")[0]), []).append(c)
        pick = []
        for k in sorted(strata):
            pick += rng.sample(strata[k], min(3, len(strata[k])))
        cases = pick
    return [(c,) for c in chunk(cases, ncpu() * 2)] + [("suite",)]


def min_required(tier):
    return {"verdict_valid": 150, "verdict_invalid": 300, "on_demand_digest_path": 200}


def run_shard(cases):
    res = ShardResult()
    if cases == "suite":
        suiteengine.run(res, ID)
        return res
    scratch = new_scratch("c06")
    contents = {k: make_content(v["cseed"], v["size"]) for k, v in SPEC.items()}
    try:
        import hashlib as _h
        pick = int(_h.sha256(repr(cases[0]).encode()).hexdigest(), 16)
        from ..common import STORE_ALGOS
        cfg = dict(depth=[3, 1, 2][pick % 3], width=[2, 1, 4][(pick // 3) % 3], algo=STORE_ALGOS[(pick // 9) % 5])
        from ..seqengine import path_spelling
        cfg["store_dir"] = path_spelling(scratch, pick // 45)
        res.count("stores_reached_through_a_non_canonical_path", 1 if cfg["store_dir"] != "store" else 0)
        pool = WorldPool(scratch, contents, {}, **cfg)
        for n, (content, algo, sp, cs, sz, prior, entry) in enumerate(cases):
            setup = [{"op": "store", "pid": "bystander", "content": "unrelated", "kind": "path"}]
            if prior == "unref":
                setup.append({"op": "store", "pid": None, "content": content, "kind": "path"})
            elif prior == "ref":
                setup.append({"op": "store", "pid": "holder", "content": content, "kind": "path"})
            if entry.startswith("store"):
                op = {"op": "store", "pid": "subject", "content": content, "kind": entry.split(":")[1],
                      "offset": "mid", "checksum": cs, "calgo": sp if cs != "none" else None, "size": sz}
            else:
                op = {"op": "dii", "content": content, "checksum": cs, "calgo": sp, "size": sz,
                      "meta_algos": entry.split(":")[1]}
            ops = setup + [op]
            w = pool.fresh(pids=["bystander", "holder", "subject"])
            before = None
            for i, o in enumerate(ops):
                out, findings, _b, before = w.step(o, i, before=before)
                if i == len(ops) - 1:
                    res.evaluations += 1
                    valid = cs in ("ok", "upper", "mixed", "none") and sz in ("ok", "none")
                    res.count("verdict_valid" if valid else "verdict_invalid")
                    if algo not in ("md5", "sha1", "sha256", "sha384", "sha512") and cs != "none":
                        res.count("on_demand_digest_path")
                    res.distinct.add(repr((content, algo, sp, cs, sz, prior, entry)))
                    if n % 400 == 0:
                        res.sample({"case": [content, algo, sp, cs, sz, prior, entry], "outcome": out.brief()})
                rel = [f for f in findings if relevant(f) and i == len(ops) - 1]
                for f in findings:
                    if f not in rel:
                        res.foreign[f.tag] = res.foreign.get(f.tag, 0) + 1
                if rel:
                    sig = finding_signature(rel[0])
                    sig.update(prior=prior, entry=entry, default_algo=algo in ("md5", "sha1", "sha256", "sha384", "sha512"))
                    res.violation(sig, seq_witness(w, ops, rel, SPEC, upto=i + 1))
                if findings:
                    break
            if n % 300 == 0:
                clear_atexit_tmp_handlers()
    finally:
        rmtree(scratch)
    return res


def replay(witness):
    return seq_replay(witness, relevant)
