"""C04 - no call ever removes an object that some pid still references."""

import itertools
import random

from .. import suiteengine
from ..common import new_scratch, rmtree, split_seeds, clear_atexit_tmp_handlers, ncpu
from ..gen import make_content, random_object_op, random_meta_op, op_shape, chunk
from ..runner import ShardResult
from ..seqengine import WorldPool, finding_signature, seq_witness, seq_replay

ID = "C04"
LEVEL = "exploration"
RULE = ("k = 2..4 pids drawn from prefix-related names (mat, matt, matthew, MATT and a non-ASCII name) are bound to one "
        "content (by store_object or store-then-tag); they are deleted in EVERY order, and between consecutive "
        "deletes one 'noise' call from a menu of 11 is made (delete_if_invalid_object with wrong checksum / wrong "
        "size on the shared object, a store on a bound pid with other content, a store of the shared content with "
        "a wrong checksum, store/delete metadata, delete of an unknown pid, tag of a bound pid, delete_if_invalid_object / "
        "tag_object / delete_object through the UPPER-case spelling of the shared cid); quick: all orders "
        "x all noise choices for k<=3 and a sample for k=4, thorough: everything, plus random sequences over a "
        "sharing-heavy alphabet. After EVERY call each pid the model says is bound is retrieved and compared "
        "byte for byte; after the last delete the object must be gone. (b) invariant at a hook, under the cooperative "
        "scheduler (all schedules with <= 1/2 preemptions of the C07 pair scenarios in which a remover - delete_object, "
        "delete_if_invalid_object - races a store/tag): at the moment an object file is unlinked or renamed away from "
        "its permanent address no non-empty cid reference list may exist for it. (c) many sharers: 140 (quick) / 600 "
        "(thorough) pids with long names on one object - a cid list of 10-40 KB, rewritten in place on every delete - "
        "stored, tagged, deleted and re-stored in random order with the model comparison after every call; and 280 pids of "
        "about 4000 characters each (a list of more than 1 MiB). "
        "distinct_nontrivial = distinct (set of "
        "pids still bound, call shape, outcome) observations with at least one pid still bound.")
ASSUMPTIONS = []

NAMES = ["matt", "matthew", "mat", "\u65e5\u672c\u8a9e.matt", "MATT"]
# sharers that are the same text to a human and different strings to the store: composed / decomposed, compatibility
# forms, a zero-width joiner (any normalisation, case folding or 'clean-up' of identifiers merges them)
NAMES_EQUIV = ["m\u00fcller", "mu\u0308ller", "M\u00dcLLER", "m\u00fcller\u200d", "\uff4d\u00fcller"]
SPEC = {"S": {"cseed": 41, "size": 8200}, "O": {"cseed": 42, "size": 50}}
DOCS = {"d": b"<doc/>"}
TAGS_PREFIX = ("state:retriev", "state:retrieve-bytes", "state:model:object", "value:bytes")


def relevant(f, w=None):
    if f.tag == "state:model:object-missing" and w is not None:
        # this property speaks about referenced objects; an unreferenced object wrongly removed by a
        # validation call belongs to C06
        return any(c in w.model.lists for c in f.detail)
    if f.tag == "state:model:object-unexpected" and w is not None:
        return f.op["op"] == "delete"   # object not removed together with its last reference
    return f.tag.startswith(TAGS_PREFIX) or f.tag.startswith("state:model:cid-list") or \
        f.tag.startswith("state:model:pid-ref")


def noise_menu(pids):
    p0 = pids[0]
    return [
        None,
        {"op": "dii", "content": "S", "checksum": "wrong", "calgo": "sha256", "size": "ok"},
        {"op": "dii", "content": "S", "checksum": "ok", "calgo": "md5", "size": "wrong"},
        {"op": "dii", "content": "S", "checksum": "wrong", "calgo": "sha224", "size": "ok"},
        {"op": "store", "pid": "@bound", "content": "O", "kind": "path"},
        {"op": "store", "pid": "newpid", "content": "S", "kind": "file", "checksum": "wrong", "calgo": "sha1"},
        {"op": "smeta", "pid": "@bound", "fmt": None, "doc": "d", "kind": "path"},
        {"op": "delete", "pid": "nobody"},
        {"op": "tag", "pid": "@bound", "cid": ["of", "S"]},
        {"op": "dii", "content": "S", "checksum": "wrong", "calgo": "sha256", "size": "ok", "cid_case": "upper",
         "meta_algos": "with_calgo"},
        {"op": "tag", "pid": "alias", "cid": ["upper", "S"]},
        {"op": "delete", "pid": "alias"},
    ]


def build_cases(tier, rng):
    cases = []
    for k in (2, 3, 4):
        for pids in itertools.combinations(NAMES, k):
            if k == 4 and tier == "quick" and pids != tuple(NAMES[:4]):
                continue
            for how in itertools.product(("store", "tag"), repeat=k):
                if tier == "quick" and k >= 3 and how not in (("store",) * k, ("store",) + ("tag",) * (k - 1)):
                    continue
                for order in itertools.permutations(pids):
                    cases.append((pids, how, order))
    for k in (2, 3):
        for pids in itertools.combinations(NAMES_EQUIV, k):
            if k == 3 and tier == "quick" and pids != tuple(NAMES_EQUIV[:3]):
                continue
            for how in ((("store",) * k, ("store",) + ("tag",) * (k - 1)) if tier == "quick" else itertools.product(("store", "tag"), repeat=k)):
                for order in itertools.permutations(pids):
                    cases.append((pids, how, order))
    return cases


def shards(tier, seed):
    rng = random.Random(seed * 1000 + 4)
    cases = build_cases(tier, rng)
    n = ncpu()
    out = [("exh", c, tier, s) for c, s in zip(chunk(cases, n * 2), split_seeds(seed + 44, n * 2))]
    nrand = 160 if tier == "quick" else 4000
    for s in split_seeds(seed * 1000 + 4, n):
        out.append(("rand", nrand // n, tier, s))
    out.append(("suite", None, tier, 0))
    # (c) many sharers: a cid list much longer than one I/O buffer, rewritten in place many times
    for s in split_seeds(seed + 4004, 2 if tier == "quick" else n):
        out.append(("long", 140 if tier == "quick" else 600, tier, s))
    # identifiers of thousands of characters: a cid list beyond one MiB (larger than any read / write block)
    for s in split_seeds(seed + 4005, 1 if tier == "quick" else 4):
        out.append(("long", -280, tier, s))
    # (b) removal-time invariant under controlled interleavings: every pair scenario with a call that can remove
    # an object (delete_object / delete_if_invalid_object) racing a call that references one
    from .. import concprops as P
    scns = [sc.to_json() for sc in P.object_pair_scenarios()
            if any(o["op"] in ("delete", "dii") for o in sc.calls) and any(o["op"] in ("store", "tag") for o in sc.calls)]
    rng.shuffle(scns)
    if tier == "quick":
        scns = scns[:96]
    for c, s in zip(chunk(scns, n), split_seeds(seed + 404, n)):
        out.append(("conc", c, tier, s))
    # (d) a FAILED store / tag must not take a referenced object with it: an I/O fault in one call while another call
    # references the same content (the failing call's clean-up runs next to a reference it did not create)
    for i, s in enumerate(split_seeds(seed + 405, len(FAULT_CONC))):
        out.append(("faultconc", i, tier, s))
    return out


def _fst(pid, c, **kw):
    d = {"op": "store", "pid": pid, "content": c, "kind": "path"}
    d.update(kw)
    return d


def _ftag(pid, c):
    return {"op": "tag", "pid": pid, "cid": ["of", c]}


FAULT_CONC = [
    ("empty", [], [_fst("p1", "X"), _fst("p2", "X")]),
    ("empty", [], [_fst("p1", "X"), _fst(None, "X"), _ftag("p2", "X")]),
    ("X-unreferenced", [_fst(None, "X")], [_fst("p1", "X"), _ftag("p2", "X")]),
    ("empty", [], [_fst("p1", "X"), _fst("p2", "X"), _fst("p1.v2", "X")]),
    ("p2->X", [_fst("p2", "X")], [_fst("p1", "X"), _fst("p1.v2", "X", checksum="wrong", calgo="md5")]),
]


def faultconc_problems(runner, ob):
    probs = [(s_, d) for s_, d in ob.removal_findings if s_ == "object-removed-while-referenced"]
    # final state: every pid that is bound (pid reference + its line in the cid list) reaches its object
    a = ob.final
    for pid, cid in a.pid_refs.items():
        if pid.startswith("?"):
            continue
        lines = a.cid_lines(cid) or []
        if pid in lines and cid not in a.objects:
            probs.append(("bound-pid-lost-its-object", {"pid": pid, "cid": cid, "outcomes": [list(x) for x in ob.okeys]}))
            break
    return probs


def run_faultconc(idx, tier, sub_seed):
    import errno
    from .. import concengine as C
    from .. import concprops as P
    from ..common import Inconclusive
    from ..gen import op_shape
    res = ShardResult()
    rng = random.Random(sub_seed)
    sname, start, calls = FAULT_CONC[idx]
    scn = C.Scenario(f"{sname}|" + "||".join(P.call_name(o) for o in calls) + "|+fault", start, calls, P.SPEC,
                     None, pids=["p1", "p2", "p1.v2"], fmts=[None], start_class=sname)
    scratch = new_scratch("c04f")
    try:
        runner = C.ScenarioRunner(scn, scratch)
        lay = runner.layout
        # quick: the full one-preemption sweep for the publishing steps (renames) only; thorough: for every fault site
        focus = (lambda desc: str(desc).startswith("rename:")) if tier == "quick" else None
        code = rng.choice([errno.EIO, errno.ENOSPC, errno.EACCES])
        for ob, _hyg, wk, k in C.explore_with_faults(runner, rng, 1, 4 if tier == "quick" else 10, code,
                                                     dfs_cap=160 if tier == "quick" else 150, site_filter=focus, persistent=True):
            if ob.deadlock or ob.hang or ob.harness_errors:
                res.foreign["did-not-complete"] = res.foreign.get("did-not-complete", 0) + 1
                continue
            res.evaluations += 1
            res.count("fault_under_contention_schedules")
            res.distinct.add(str(hash((scn.name, wk, k, tuple(ob.trace)))))
            site = (ob.fault_fired or "").split(":")[0] + ":" + "/".join((ob.fault_fired or "::").split(":")[2].split("/")[:2])
            base = {"calls": sorted(op_shape(o) for o in scn.calls), "start": sname, "faulted_call": op_shape(scn.calls[wk]),
                    "fault_site": site}
            for symptom, detail in faultconc_problems(runner, ob):
                wit = C.witness(runner, ob, symptom, detail)
                wit.update(fault={"worker": wk, "site": k, "operation": ob.fault_fired, "errno": code, "persistent": True})
                res.violation(dict(base, symptom=symptom), wit)
            res.count("bound_pids_checked_after_faulted_schedules", len(ob.final.pid_refs))
        res.sample({"scenario": scn.name, "schedules": res.evaluations})
    except Inconclusive as inc:
        res.inconclusive.append(f"{scn.name}: {inc}")
    finally:
        rmtree(scratch)
        clear_atexit_tmp_handlers()
    return res


def min_required(tier):
    return {"retrieves_of_sharers": 20000, "last_delete_removes_object": 200, "removal_monitor_schedules": 1000}


def run_seq(pool, ops, res, pids_all):
    w = pool.fresh(pids=pids_all, fmts=(None, "f1"))
    before = None
    for i, op in enumerate(ops):
        op = dict(op)
        if op.get("pid") == "@bound":
            b = sorted(w.model.bound)
            op["pid"] = b[0] if b else "nobody2"
        nb_before = {p for p, c in w.model.bound.items()}
        out, findings, _b, after = w.step(op, i, before=before, check_retrievable=False)
        n = w.check_retrievable(lambda tag, detail: findings.append(_F(tag, detail, i, op)))
        res.count("retrieves_of_sharers", n)
        before = after
        if w.model.bound:
            res.distinct.add(repr((tuple(sorted(w.model.bound)), op_shape(op), out.brief())))
        if op["op"] == "delete" and out.ok and nb_before and not any(
                c == w.layout.cid_of(w.contents["S"]) for c in w.model.bound.values()):
            if w.layout.cid_of(w.contents["S"]) not in after.objects:
                res.count("last_delete_removes_object")
        rel = [f for f in findings if relevant(f, w)]
        for f in findings:
            if not relevant(f, w):
                res.foreign[f.tag] = res.foreign.get(f.tag, 0) + 1
        if rel:
            res.violation(finding_signature(rel[0]), seq_witness(w, ops, rel, SPEC, {"d": {"cseed": 0, "size": 0}}, upto=i + 1))
        if findings:
            return
    return


def _F(tag, detail, i, op):
    from ..seqengine import Finding
    return Finding(tag, detail, i, op)


def run_long(npids, sub_seed):
    """One object shared by `npids` pids with long names (the cid list spans several buffers); deletes and new tags
    in random order; after every call the list must hold exactly the bound pids and a sample must be retrievable."""
    res = ShardResult()
    rng = random.Random(sub_seed)
    scratch = new_scratch("c04l")
    contents = {k: make_content(v["cseed"], v["size"]) for k, v in SPEC.items()}
    try:
        full_every = 1
        if npids < 0:
            full_every = 12        # a 1 MiB list: the full directory comparison every 12th call, outcomes always
            npids = -npids
            pids = [f"{i}:" + "".join(rng.choice("abcdefghijklmnopqrstuvwxyz0123456789/._-") for _ in range(rng.randrange(3900, 4100)))
                    for i in range(npids)]
        else:
            pids = [f"urn:uuid:{rng.getrandbits(128):032x}:{'x' * rng.randrange(0, 40)}:{i}" for i in range(npids)]
        from ..seqengine import World
        w = World(scratch, contents, DOCS, pids=pids)
        ops = [{"op": "store", "pid": p, "content": "S", "kind": "path"} if i % 3 else {"op": "tag", "pid": p, "cid": ["of", "S"]}
               for i, p in enumerate(pids)]
        ops.insert(0, {"op": "store", "pid": None, "content": "S", "kind": "path"})
        order = list(pids)
        rng.shuffle(order)
        half = order[: npids // 2]
        ops += [{"op": "delete", "pid": p} for p in half]
        ops += [{"op": "store", "pid": p, "content": "S", "kind": "path"} for p in half[: npids // 6]]
        rest = [p for p in pids if p not in half] + half[: npids // 6]
        rng.shuffle(rest)
        ops += [{"op": "delete", "pid": p} for p in rest]
        before = None
        for i, op in enumerate(ops):
            last = i == len(ops) - 1
            if full_every > 1 and i % full_every and not last:
                expect = w.model.apply(op)
                out, _ex = w.execute(op)
                res.evaluations += 1
                before = None
                if not expect.admits(out):
                    res.violation({"symptom": "outcome", "op": op["op"], "got": out.brief(),
                                   "sharers": "many (cid list longer than one buffer)"},
                                  {"engine": "C04-long", "npids": npids, "seed": sub_seed, "step": i, "op": {k: (v if k != "pid" else v[:40] + "...") for k, v in op.items()},
                                   "msg": out.msg})
                    break
                continue
            out, findings, _b, before = w.step(op, i, before=before, check_retrievable=False)
            res.evaluations += 1
            if i % 10 == 0 or last:
                bound = sorted(w.model.bound)
                for p in ([bound[0], bound[-1], rng.choice(bound)] if bound else []):
                    from ..common import call, read_all_and_close
                    r = call(w.store.retrieve_object, p)
                    res.count("retrieves_of_sharers")
                    if not r.ok or read_all_and_close(r.value) != contents["S"]:
                        findings.append(_F("state:retrievable", {"pid": p, "error": r.brief()}, i, op))
            res.distinct.add(f"long:{sub_seed}:{len(w.model.bound)}:{op['op']}")
            rel = [f for f in findings if relevant(f, w)]
            for f in findings:
                if not relevant(f, w):
                    res.foreign[f.tag] = res.foreign.get(f.tag, 0) + 1
            if rel:
                sig = finding_signature(rel[0])
                sig["sharers"] = "many (cid list longer than one buffer)"
                res.violation(sig, {"engine": "C04-long", "npids": npids, "seed": sub_seed, "step": i, "op": op,
                                    "bound_now": len(w.model.bound), "finding": rel[0].to_json()})
                break
            if findings:
                break
        res.count("long_list_max_bytes", max(0, sum(len(p) + 1 for p in pids)))
        if not w.model.bound and w.layout.cid_of(contents["S"]) not in before.objects:
            res.count("last_delete_removes_object")
    finally:
        rmtree(scratch)
        clear_atexit_tmp_handlers()
    return res


def run_shard(mode, payload, tier, sub_seed):
    if mode == "suite":
        res = ShardResult()
        suiteengine.run(res, ID)
        return res
    if mode == "long":
        return run_long(payload, sub_seed)
    if mode == "faultconc":
        return run_faultconc(payload, tier, sub_seed)
    if mode == "conc":
        from .. import concprops as P
        res = P.run_scenarios(payload, 1 if tier == "quick" else 2, 4 if tier == "quick" else 20, 0, sub_seed,
                              {"object-removed-while-referenced"})
        res.count("removal_monitor_schedules", res.counters.get("schedules", 0))
        return res
    res = ShardResult()
    scratch = new_scratch("c04")
    rng = random.Random(sub_seed)
    contents = {k: make_content(v["cseed"], v["size"]) for k, v in SPEC.items()}
    try:
        pool = WorldPool(scratch, contents, DOCS)
        count = 0
        if mode == "exh":
            for pids, how, order in payload:
                setup = []
                for p, h in zip(pids, how):
                    if h == "store":
                        setup.append({"op": "store", "pid": p, "content": "S", "kind": "path"})
                    else:
                        if not setup:
                            setup.append({"op": "store", "pid": None, "content": "S", "kind": "path"})
                        setup.append({"op": "tag", "pid": p, "cid": ["of", "S"]})
                menu = noise_menu(pids)
                k = len(order)
                combos = list(itertools.product(range(len(menu)), repeat=k - 1))
                if (tier == "quick" and k >= 3) or (k == 4 and len(combos) > 200):
                    rng.shuffle(combos)
                    combos = combos[: (12 if tier == "quick" else 200)]
                for combo in combos:
                    ops = list(setup)
                    for j, p in enumerate(order):
                        ops.append({"op": "delete", "pid": p})
                        if j < k - 1 and menu[combo[j]] is not None:
                            ops.append(menu[combo[j]])
                    run_seq(pool, ops, res, list(NAMES) + list(NAMES_EQUIV) + ["newpid", "nobody", "nobody2", "alias"])
                    res.evaluations += 1
                    count += 1
                    if count % 300 == 0:
                        clear_atexit_tmp_handlers()
                    if count == 2:
                        res.sample([op_shape(o) + ":" + str(o.get("pid")) for o in ops])
        else:
            for k in range(payload):
                pids = NAMES if k % 3 else NAMES_EQUIV
                ops = []
                for _ in range(35):
                    if rng.random() < 0.2:
                        ops.append(random_meta_op(rng, pids, [None, "f1"], ["d"]))
                    else:
                        ops.append(random_object_op(rng, pids, ["S", "S", "O"], kinds=("path", "file", "bytesio")))
                run_seq(pool, ops, res, list(NAMES) + list(NAMES_EQUIV))
                res.evaluations += 1
                clear_atexit_tmp_handlers()
    finally:
        rmtree(scratch)
    return res


def replay(witness):
    if witness.get("engine") == "conc" and witness.get("fault"):
        from .. import concprops as P
        return P.replay_fault_witness(witness, faultconc_problems)
    if witness.get("engine") == "conc":
        from .. import concprops as P
        return P.replay_witness(witness, {"object-removed-while-referenced"})
    return seq_replay(witness, relevant)
