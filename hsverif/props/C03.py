"""C03 - a pid names at most one object; the binding is immutable until deleted."""

import itertools
import random

from .. import suiteengine
from ..common import new_scratch, rmtree, split_seeds, clear_atexit_tmp_handlers, ncpu, ALL_ALGOS
from ..gen import make_content, object_menu, random_object_op, op_shape, chunk, spelling
from ..model import Model, ALREADY
from ..absstate import Layout
from ..common import DEFAULT_NS
from ..runner import ShardResult
from ..seqengine import WorldPool, finding_signature, seq_witness, seq_replay

ID = "C03"
LEVEL = "exploration"
RULE = ("every sequence of length <= L (3 quick / 4 thorough) over a menu on pids p/pq/q and contents A/B "
        "(store with pid, store without pid, tag to cid(A)/cid(B)/never-stored cid, delete, delete_if_invalid "
        "right/wrong) that the model says contains at least one store_object/tag_object on an already bound pid "
        "is executed; plus random sequences in which re-bind attempts carry every data kind and right/wrong "
        "validation arguments. Oracle on each re-bind attempt: exception class in {HashStoreRefsAlreadyExists, "
        "PidRefsAlreadyExistsError} (a mismatch error is also accepted when the attempt carries wrong validation "
        "data), directory abstraction identical before/after except for a new unreferenced object holding the "
        "rejected new content, bound pid still retrievable with its bytes; re-binding succeeds only after a "
        "completed delete_object. (b) under the cooperative scheduler: triples of two calls binding ONE pid (store/tag "
        "to the same or different cids) and a call on another pid, all schedules with <= 1 preemption (bounded) + "
        "random walks + PCT; exactly the sequential outcomes are allowed (one binder wins, the other is rejected). "
        "distinct_nontrivial = distinct (model state before, attempt shape, outcome).")
ASSUMPTIONS = ["the model decides which calls are re-bind attempts"]

PIDS = ["p", "pq", "q"]
SPEC = {"A": {"cseed": 31, "size": 600}, "B": {"cseed": 32, "size": 8300}}


def is_rebind(model, op):
    return op["op"] in ("store", "tag") and op.get("pid") is not None and op["pid"] in model.bound


def relevant(f):
    # judged only on re-bind attempts (flag set by the driver) and on successful (re)binds
    return getattr(f, "_c03", False)


def shards(tier, seed):
    menu = object_menu(PIDS, ["A", "B"], validations=False)
    L = 3 if tier == "quick" else 4
    n = ncpu()
    out = [("exh", L, fs, 0) for fs in chunk(list(range(len(menu))), n * 2)]
    nrand = 320 if tier == "quick" else 8000
    for s in split_seeds(seed * 1000 + 3, n):
        out.append(("rand", nrand // n, None, s))
    out.append(("suite", 0, None, 0))
    # (b) the same guarantee under controlled interleavings: two calls that try to bind ONE pid (to the same or to
    # different cids) + one call on another pid that shares a lock/condition with them
    from .. import concprops as P
    from .. import concengine as C
    scns = []
    binders = [P.st("p1", "X"), P.st("p1", "Y"), P.tag("p1", "X"), P.tag("p1", "Y")]
    others = [P.tag("p2", "X"), P.st("p2", "Y"), P.dele("p2"), P.tag("p1.v2", "Y")]
    for sname in ("empty", "X-unreferenced", "p1,p2->X"):
        for i, a in enumerate(binders):
            for b in binders[i:]:
                for o in others:
                    scns.append(C.Scenario(f"{sname}|{P.call_name(a)}||{P.call_name(b)}||{P.call_name(o)}",
                                           P.OBJECT_STARTS[sname], [a, b, o], P.SPEC, pids=["p1", "p2", "p1.v2"],
                                           start_class=sname).to_json())
    rng = random.Random(seed * 1000 + 33)
    rng.shuffle(scns)
    if tier == "quick":
        scns = scns[:64]
    for c, s in zip(chunk(scns, n), split_seeds(seed + 303, n)):
        out.append(("conc", c, tier, s))
    return out


def min_required(tier):
    return {"rebind_attempts": 3000, "rebinds_after_delete": 100, "concurrent_binder_schedules": 2000}


def run_seq(pool, ops, res):
    w = pool.fresh(pids=PIDS + ["r"], fmts=(None, "f1"))
    before = None
    ever_bound = set()
    for i, op in enumerate(ops):
        rebind = is_rebind(w.model, op)
        mkey = w.model.key()
        was_bound_before = op.get("pid") in ever_bound and op["op"] in ("store", "tag")
        out, findings, _b, after = w.step(op, i, before=before)
        before = after
        if rebind:
            res.count("rebind_attempts")
            res.distinct.add(str(hash((mkey, op_shape(op), op.get("content"), str(op.get("cid")), out.brief()))))
            if out.ok:
                findings = list(findings)
        elif out.ok and was_bound_before:
            res.count("rebinds_after_delete")
        if out.ok and op["op"] in ("store", "tag") and op.get("pid"):
            ever_bound.add(op["pid"])
        rel = []
        for f in findings:
            if rebind and (f.tag == "outcome" or f.tag.startswith("state:")):
                f_rel = True
            elif f.tag == "outcome" and op["op"] in ("store", "tag") and op.get("pid") and not out.ok \
                    and "already" in str(f.detail.get("got")):
                f_rel = True   # rejected as already existing although the model says the pid is free
            else:
                f_rel = False
            if f_rel:
                rel.append(f)
            else:
                res.foreign[f.tag] = res.foreign.get(f.tag, 0) + 1
        if rel:
            sig = finding_signature(rel[0])
            sig["rebind_attempt"] = rebind
            res.violation(sig, seq_witness(w, ops, rel, SPEC, upto=i + 1))
        if findings:
            return


CONC_SYMPTOMS = {"outcome-not-sequential", "state-not-sequential"}


def run_shard(mode, n, firsts, sub_seed):
    if mode == "suite":
        res = ShardResult()
        suiteengine.run(res, ID)
        return res
    if mode == "conc":
        from .. import concprops as P
        tier = firsts
        res = P.run_scenarios(n, 1, 12 if tier == "quick" else 60, 12 if tier == "quick" else 80, sub_seed,
                              CONC_SYMPTOMS, budget=60 if tier == "quick" else 1500)
        res.count("concurrent_binder_schedules", res.counters.get("schedules", 0))
        return res
    res = ShardResult()
    scratch = new_scratch("c03")
    contents = {k: make_content(v["cseed"], v["size"]) for k, v in SPEC.items()}
    try:
        pool = WorldPool(scratch, contents, {"d1": b"<doc/>"})
        if mode == "exh":
            menu = object_menu(PIDS, ["A", "B"], validations=False)
            layout = Layout(3, 2, "SHA-256", DEFAULT_NS)
            count = 0
            for first in firsts:
                for tail_len in range(1, n):
                    for tail in itertools.product(menu, repeat=tail_len):
                        ops = (menu[first],) + tail
                        # dry run on the model alone: keep only sequences with a re-bind attempt
                        m = Model(layout, contents, {})
                        hit = False
                        for op in ops:
                            if is_rebind(m, op):
                                hit = True
                            m.apply(op)
                        res.count("sequences_enumerated")
                        if not hit:
                            continue
                        run_seq(pool, ops, res)
                        res.evaluations += 1
                        count += 1
                        if count % 500 == 0:
                            clear_atexit_tmp_handlers()
                        if count == 3:
                            res.sample([op_shape(o) + ":" + str(o.get("pid")) + ":" + str(o.get("content") or o.get("cid")) for o in ops])
        else:
            rng = random.Random(sub_seed)
            for k in range(n):
                ops = []
                for _ in range(30):
                    if rng.random() < 0.15:
                        ops.append({"op": "smeta", "pid": rng.choice(PIDS), "fmt": rng.choice([None, "f1"]), "doc": "d1", "kind": "path"})
                        continue
                    op = random_object_op(rng, PIDS + ["r"], ["A", "B"], kinds=("path", "Path", "file", "bytesio", "bufreader"))
                    ops.append(op)
                run_seq(pool, ops, res)
                res.evaluations += 1
                if k == 0:
                    res.sample([op_shape(o) for o in ops[:10]])
                clear_atexit_tmp_handlers()
    finally:
        rmtree(scratch)
    return res


def replay(witness):
    if witness.get("engine") == "conc":
        from .. import concprops as P
        return P.replay_witness(witness, CONC_SYMPTOMS)
    return seq_replay(witness, lambda f: f.tag == "outcome" or f.tag.startswith("state:"))
