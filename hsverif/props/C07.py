"""C07 - concurrent object operations are linearizable."""

import random

from .. import concprops as P
from ..common import ncpu, split_seeds
from ..gen import chunk

ID = "C07"
LEVEL = "exploration"
RULE = ("scenario = start state {empty, p1->X, p1,p2->X, X unreferenced, p1->missing object} + a pair of calls from a "
        "14-call menu (store_object for p1 / p2 / p1.v2 (a pid that has another as prefix) with content X/Y, with a wrong checksum, without pid; tag_object; "
        "delete_object; delete_if_invalid_object right/wrong) that share a pid or a cid directly or through the "
        "start state (+3 independent control pairs) - every such pair; plus sampled triples. Each scenario is run "
        "on the REAL code under a cooperative scheduler that owns every shared file-system call and every "
        "condition-variable operation: ALL schedules with <= c preemptions (c=1 quick, 2 thorough; switches at "
        "blocking points are free) + seeded random walks; triples by PCT(d=3) and random walks; plus random / PCT "
        "schedules with STATEMENT-level yield points (sys.monitoring LINE events in filehashstore.py, ~900 points "
        "per two-call run) on 96 (quick) / all (thorough) pair scenarios, and 8 (quick) / 120 (thorough) schedules per pair "
        "scenario with yield points at the statements of the synchronisation code only, switching there with "
        "probability 0.2-0.5 (FocusChooser). Oracle: (per-call "
        "outcome, final directory abstraction) must equal that of some sequential order of the same calls run on "
        "the same code (a store_object rejected 'already in progress' while another store_object for the same pid "
        "is in the scenario is the one extra outcome allowed); no deadlock. distinct_nontrivial = distinct "
        "(scenario, interleaving) pairs executed, interleaving = the sequence of thread indices at yield points. "
        "thorough adds 2400 free-running histories (3-4 real threads x 2-3 calls, seeded micro-delays at file-system "
        "calls) checked by a Wing-Gong search against the reference model - an independent cross-check of the "
        "yield-point assumption.")
ASSUMPTIONS = ["systematic search uses yield points = shared file-system calls + condition operations + sleep(); races "
               "between two in-memory statements are reached by the statement-level random schedules only",
               "directory-level stat/mkdir are scheduling points only in scenarios where directories can still be missing "
               "(start from an empty store; all metadata scenarios); elsewhere they are skipped because they commute",
               "the sequential specification is the implementation run without preemption"]
SYMPTOMS = {"deadlock", "outcome-not-sequential", "state-not-sequential", "object-removed-while-referenced",
            "history-not-linearizable", "worker-hang", "mp-list-not-empty"}
WATCHDOG_S = 7200


def shards(tier, seed):
    pairs = [s.to_json() for s in P.object_pair_scenarios()]
    rng = random.Random(seed * 1000 + 7)
    triples = [s.to_json() for s in P.object_triple_scenarios(rng, 48 if tier == "quick" else 1200)]
    n = ncpu()
    rng.shuffle(pairs)
    out = []
    seeds = split_seeds(seed * 1000 + 77, n * 4)
    # statement-level yield points (sys.monitoring LINE events inside filehashstore.py): random / PCT schedules that
    # can preempt between any two statements, for races on in-memory state that file-system-level points cannot split
    line_scns = list(pairs)
    random.Random(seed * 1000 + 71).shuffle(line_scns)
    # two contenders + a third party on an unrelated identifier that shares their condition (a stray wake-up)
    wake = [sc.to_json() for sc in P.object_wakeup_triples()]
    for c, s in zip(chunk(wake, len(wake)), split_seeds(seed + 73, len(wake))):
        out.append((c, 1, 20 if tier == "quick" else 60, 10 if tier == "quick" else 60, s, 500 if tier == "quick" else 4000))
    if tier == "quick":
        for c, s in zip(chunk(pairs, n * 2), seeds):
            out.append((c, 1, 6, 0, s, None))
        for c, s in zip(chunk(triples, n), seeds[n * 2:]):
            out.append((c, 0, 10, 10, s, 1))
        for c, s in zip(chunk(line_scns[:96], n), split_seeds(seed + 71, n)):
            out.append(("statement-level", c, 8, 0, s))
        for c, s in zip(chunk(line_scns, n * 2), split_seeds(seed + 72, n * 2)):
            out.append(("statement-level", c, 0, 8, s))
    else:
        for c, s in zip(chunk(line_scns, n * 2), split_seeds(seed + 71, n * 2)):
            out.append(("statement-level", c, 60, 120, s))
        for c, s in zip(chunk(pairs, n * 4), seeds):
            out.append((c, 2, 30, 0, s, None))
        for c, s in zip(chunk(triples, n * 2), split_seeds(seed + 7, n * 2)):
            out.append((c, 1, 60, 120, s, 400))
        # independent cross-check of the yield-point assumption: REAL OS-scheduled threads with seeded
        # micro-delays, histories recorded at the client boundary and checked by a Wing-Gong search
        for s in split_seeds(seed + 707, n):
            out.append(("free-running-threads", 150, s))
    return out


def min_required(tier):
    return {"schedules": 10000, "scenarios": 300, "schedules_with_a_waiting_thread": 500, "statement_level_schedules": 500}


def run_shard(*args):
    if args[0] == "free-running-threads":
        from .C16 import run_histories
        res = run_histories(args[1], args[2], mode="threads")
        res.counters["thread_histories"] = res.counters.pop("process_histories", 0)
        res.counters["thread_calls_recorded"] = res.counters.pop("process_calls_recorded", 0)
        return res
    if args[0] == "statement-level":
        _k, scns, n_line, n_sync, sub_seed = args
        return P.run_scenarios(scns, 0, 0, 0, sub_seed, SYMPTOMS, n_line=n_line, n_sync=n_sync, skip_dfs=True)
    scns, bound, n_random, pct, sub_seed, budget = args
    return P.run_scenarios(scns, bound, n_random, pct, sub_seed, SYMPTOMS, budget=budget)


def replay(witness):
    return P.replay_witness(witness, SYMPTOMS)
