"""C01 - stored bytes come back unchanged, addressed by their own hash."""

import os
import random

from .. import suiteengine
from ..common import STORE_ALGOS, new_scratch, rmtree, split_seeds, clear_atexit_tmp_handlers
from ..gen import make_content, random_object_op, random_meta_op, op_shape, boundary_sizes
from ..runner import ShardResult
from ..seqengine import World

ID = "C01"
LEVEL = "exploration"
RULE = ("episode = store_object(pid, content) through one of 8 data kinds (str path, Path, open rb file, "
        "io.BytesIO, BufferedReader(BytesIO), gzip.open stream - its .name holds OTHER bytes -, os.fdopen stream - its "
        ".name is a descriptor number -, a file stream whose path was replaced on disk after opening; streams at offset 0/1/mid/end) in a store with one of the 5 "
        "algorithms x 3 shard shapes, sizes on and around multiples of 4096 / 8192 / 65536, 1 MiB and 4-9 MiB objects, an "
        "eighth of the episodes with the store reached through a symbolic link, followed by a random "
        "history of calls on other pids (same/different content, deletes of sharers, metadata, rejected "
        "calls, delete_if_invalid_object) with retrieve_object(pid) checked against the original bytes "
        "after every step. Oracle: independent hashlib digest / len / byte equality / stream.closed+tell. "
        "distinct_nontrivial = distinct (size class, data kind, offset, algorithm, shard shape, "
        "history op-kind tuple) with a history of >= 2 calls.")
ASSUMPTIONS = ["hashlib digests are the ground truth", "tmpfs scratch directory behaves like a POSIX file system"]

RELEVANT = {"value:cid", "value:size", "value:bytes", "stream:closed", "stream:offset",
            "state:retrievable", "state:retrieve-bytes"}
KINDS = ["path", "Path", "file", "bytesio", "bufreader", "gzip", "fdopen", "replaced"]
STREAM_KINDS = ("file", "bytesio", "bufreader", "gzip", "fdopen", "replaced")
SHAPES = [(3, 2), (1, 1), (2, 4)]


def shards(tier, seed):
    n_shards = 16
    per = 100 if tier == "quick" else 1900
    return [(s, per, i) for i, s in enumerate(split_seeds(seed * 1000 + 1, n_shards))] + [("suite", 0, -1)]


def min_required(tier):
    return {"evaluations": 200, "retrieves_checked": 1000, "streams_checked": 50}


def episode(rng, scratch, res, idx, force=None):
    algo = rng.choice(STORE_ALGOS)
    depth, width = rng.choice(SHAPES)
    sizes = boundary_sizes(rng)
    size = rng.choice(sizes)
    kind = rng.choice(KINDS)
    offset = rng.choice(["0", "1", "mid", "end"]) if kind in STREAM_KINDS else None
    if force:
        algo, depth, width, size, kind, offset = force
    spec = {"main": {"cseed": rng.getrandbits(32), "size": size},
            "other": {"cseed": rng.getrandbits(32), "size": rng.choice([0, 3, 5000, 8193])},
            "third": {"cseed": rng.getrandbits(32), "size": rng.choice([1, 70, 9000])}}
    contents = {k: make_content(v["cseed"], v["size"]) for k, v in spec.items()}
    docs = {"d1": b"<m>1</m>", "d2": make_content(7, 9000)}
    d = os.path.join(scratch, f"e{idx}")
    os.makedirs(d)
    try:
        store_dir = "store"
        if rng.random() < 0.12:
            # the store is reached through a symbolic link (a deployment detail that must not matter)
            os.makedirs(os.path.join(d, "real"))
            os.symlink(os.path.join(d, "real"), os.path.join(d, "link"))
            store_dir = "link/store"
            res.count("episodes_through_a_symlinked_path")
        w = World(d, contents, docs, depth=depth, width=width, algo=algo, store_dir=store_dir)
        others = ["q1", "q2", "main2"]
        ops = [{"op": "store", "pid": "main", "content": "main", "kind": kind, "offset": offset}]
        hist_len = rng.randint(2, 10)
        for _ in range(hist_len):
            if rng.random() < 0.25:
                ops.append(random_meta_op(rng, others + ["main"], [None, "f1"], ["d1", "d2"]))
                if ops[-1]["op"] == "dmeta" and ops[-1]["pid"] == "main":
                    ops[-1]["pid"] = "q1"
            else:
                # sharing is the hostile case: other pids store, tag and delete the SAME content most of the time
                ops.append(random_object_op(rng, others, ["main", "main", "main", "other", "third"], kinds=("path", "file", "bytesio")))
            if rng.random() < 0.4:
                ops.append({"op": "retrieve", "pid": "main"})
        ops.append({"op": "retrieve", "pid": "main"})
        ops.append({"op": "delete", "pid": "main"})
        ops.append({"op": "retrieve", "pid": "main"})
        trace = []
        bad = None
        before = None
        for i, op in enumerate(ops):
            out, findings, _b, after = w.step(op, i, before=before)
            before = after
            trace.append([op_shape(op), out.brief()])
            if op["op"] == "retrieve" and out.ok:
                res.count("retrieves_checked")
            if op["op"] == "store" and op.get("kind") in STREAM_KINDS:
                res.count("streams_checked")
            for f in findings:
                # the store of the pid under observation must itself succeed (accepted data kinds)
                rel = f.tag in RELEVANT or (f.tag == "outcome" and op["op"] == "store" and i == 0) \
                    or (f.tag == "outcome" and op["op"] == "retrieve" and op["pid"] == "main")
                if rel:
                    bad = bad or f
                else:
                    res.foreign[f.tag] = res.foreign.get(f.tag, 0) + 1
            # the pid under observation must stay retrievable whatever happens to the others: go on after
            # observations that belong to other properties, stop at the first one that is C01's own
            if bad:
                break
        res.count("retrieves_checked", 0)
        res.evaluations += 1
        hist = tuple(o["op"] for o in ops[1:-3])
        szc = str(size) if size in sizes[:-1] or force else "rand"
        if len(hist) >= 2:
            res.distinct.add(repr((szc, kind, offset, algo, depth, width, hist)))
        res.sample({"config": [algo, depth, width], "size": size, "kind": kind, "offset": offset, "trace": trace})
        if bad:
            sig = {"symptom": bad.tag, "op": op_shape(bad.op)}
            if bad.tag == "outcome":
                sig["got"] = bad.detail.get("got")
            res.violation(sig, {"engine": "C01", "force": [algo, depth, width, size, kind, offset],
                                "contents": spec, "ops": ops[:(bad.step or 0) + 1],
                                "finding": bad.to_json()})
    finally:
        rmtree(d)


def run_shard(sub_seed, n, shard_idx):
    res = ShardResult()
    if sub_seed == "suite":
        suiteengine.run(res, ID)
        return res
    rng = random.Random(sub_seed)
    scratch = new_scratch("c01")
    try:
        # a systematic sweep first so that every (kind, offset) x algorithm and every boundary size is
        # seen in every run, then random episodes
        sweep = []
        if shard_idx == 0:
            for kind in KINDS:
                for off in (["0", "1", "mid", "end"] if kind in STREAM_KINDS else [None]):
                    for algo in STORE_ALGOS:
                        sweep.append((algo, 3, 2, 8193, kind, off))
        if shard_idx == 2:
            # multi-megabyte objects (hash / copy loops that batch their work)
            for size, kind in ((4 * 2 ** 20 + 1, "path"), (9 * 2 ** 20 + 7, "bytesio"), (2 ** 22, "file")):
                sweep.append(("SHA-256", 3, 2, size, kind, "1" if kind != "path" else None))
        if shard_idx == 1:
            for size in boundary_sizes(random.Random(0)):
                for kind in KINDS:
                    sweep.append(("SHA-256", 3, 2, size, kind, "mid" if kind in STREAM_KINDS else None))
        for i, f in enumerate(sweep):
            episode(rng, scratch, res, f"s{i}", force=f)
        for i in range(n):
            episode(rng, scratch, res, i)
            if i % 50 == 0:
                clear_atexit_tmp_handlers()
    finally:
        rmtree(scratch)
    return res


def replay(witness):
    res = ShardResult()
    scratch = new_scratch("c01r")
    rng = random.Random(0)
    # re-run the recorded episode configuration; the history part is re-drawn, the deciding store and
    # retrieves are the recorded ones
    contents = {k: make_content(v["cseed"], v["size"]) for k, v in witness["contents"].items()}
    algo, depth, width, size, kind, offset = witness["force"]
    w = World(os.path.join(scratch, "r"), contents, {"d1": b"<m>1</m>", "d2": make_content(7, 9000)},
              depth=depth, width=width, algo=algo)
    before = None
    for i, op in enumerate(witness["ops"]):
        out, findings, _b, before = w.step(op, i, before=before)
        print(f"  step {i}: {op_shape(op)} -> {out.brief()} findings={[f.tag for f in findings]}")
        for f in findings:
            if f.tag in RELEVANT or f.tag == "outcome":
                sig = {"symptom": f.tag, "op": op_shape(f.op)}
                if f.tag == "outcome":
                    sig["got"] = f.detail.get("got")
                res.violation(sig, witness)
    res.evaluations = 1
    rmtree(scratch)
    return res
