"""C19 - the two documented ways of storing an object converge."""

import hashlib
import itertools
import os
import random
import shutil

from ..absstate import abstract, Layout
from ..common import (DEFAULT_NS, DEFAULT_ALGOS, new_scratch, rmtree, split_seeds, ncpu, call,
                      clear_atexit_tmp_handlers, read_all_and_close)
from ..gen import chunk, make_content, object_menu, op_shape
from ..model import mixed_case, wrong_checksum
from ..runner import ShardResult
from ..seqengine import World, WorldPool

ID = "C19"
LEVEL = "exploration"
RULE = ("start states = histories over a 20-operation menu (quick: 150 sampled of length <= 2, 24 sampled combinations each; "
        "thorough: ALL 421 of length <= 2 with the full 144-combination product + 1500 sampled of length 3 x 24) (pids p/q, "
        "contents A/B: store with/without pid, tag, delete, delete_if_invalid right/wrong); for each, the subject "
        "pid (free: 's', or already bound: 'p') x content {A, B, never-seen C} x validation {absent, correct "
        "size+checksum (sha256, md5, sha3_256, blake2b), UPPER-case checksum, wrong checksum, wrong size, both "
        "wrong} x data kind {path, stream}: the store directory is copied, procedure 1 = store_object(pid, data, "
        "checksum..., size) runs on one copy, procedure 2 = store_object(data); delete_if_invalid_object(meta, ...); "
        "tag_object(pid, cid) on the other. Oracle: with correct/absent validation data both succeed (or both are "
        "rejected already-exists), report equal cid / size / default digests and leave equal directory "
        "abstractions; with incorrect data both raise the same mismatch class, the pid is unbound on both sides and "
        "every previously referenced object is still retrievable. Each shard runs in its own store configuration "
        "(depth 1/3/4, width 1-3, one of the five algorithms). distinct_nontrivial = distinct (start-state "
        "abstraction, subject, content, validation, kind).")
ASSUMPTIONS = ["with incorrect validation data and previously unreferenced content the two procedures may differ in "
               "whether the unreferenced object survives; the statement does not require equality there"]

SPEC = {"A": {"cseed": 191, "size": 700}, "B": {"cseed": 192, "size": 8200}, "C": {"cseed": 193, "size": 4097}}
VALIDATIONS = ["absent", "ok:sha256", "ok:md5", "ok:sha3_256", "ok:blake2b", "upper:sha256", "upper:sha3_256",
               "mixed:sha224", "wrongsum:sha256", "wrongsum:sha224", "wrongsize", "bothwrong", "bothwrong:sha224",
               "bothwrong:blake2s"]


def shards(tier, seed):
    menu = object_menu(["p", "q"], ["A", "B"], validations=False)
    H = 2 if tier == "quick" else 3
    hist = [()]
    for n in range(1, H + 1):
        hist += list(itertools.product(range(len(menu)), repeat=n))
    rng = random.Random(seed * 1000 + 19)
    if tier == "quick":
        rng.shuffle(hist)
        hist = [()] + hist[:150]
    else:
        # every history of length <= 2 with the full product of subjects/contents/validations/kinds, plus a
        # seeded sample of the 8000 length-3 histories with 24 combinations each
        short = [h for h in hist if len(h) <= 2]
        long3 = [h for h in hist if len(h) == 3]
        rng.shuffle(long3)
        hist = short + long3[:1500]
    return [(c, tier, s) for c, s in zip(chunk(hist, ncpu() * 4), split_seeds(seed + 19, ncpu() * 4))]


def min_required(tier):
    return {"pairs_compared": 1500, "valid_pairs": 800, "invalid_pairs": 400}


def validation_args(v, data):
    """(checksum, algo, size, valid?)"""
    if v == "absent":
        return None, None, None, True
    if v == "wrongsize":
        return hashlib.sha256(data).hexdigest(), "sha256", len(data) + 3, False
    if v == "bothwrong":
        return wrong_checksum(hashlib.md5(data).hexdigest(), "wrong"), "md5", len(data) + 1, False
    if v.startswith("bothwrong:"):
        a = v.split(":")[1]
        return wrong_checksum(hashlib.new(a, data).hexdigest(), "wrong"), a, len(data) + 1, False
    mode, algo = v.split(":")
    true = hashlib.new(algo, data).hexdigest()
    if mode == "ok":
        return true, algo, len(data), True
    if mode == "upper":
        return true.upper(), algo.upper(), len(data), True
    if mode == "mixed":
        return mixed_case(true), algo, len(data), True
    return wrong_checksum(true, "wrong"), algo, len(data), False


def run_shard(histories, tier, sub_seed):
    res = ShardResult()
    rng = random.Random(sub_seed)
    scratch = new_scratch("c19")
    contents = {k: make_content(v["cseed"], v["size"]) for k, v in SPEC.items()}
    menu = object_menu(["p", "q"], ["A", "B"], validations=False)
    # configuration variety: every shard draws its own shard shape and store algorithm
    from ..common import STORE_ALGOS
    cfg = dict(depth=rng.choice([1, 3, 4]), width=rng.choice([1, 2, 3]), algo=rng.choice(STORE_ALGOS))
    lay = Layout(cfg["depth"], cfg["width"], cfg["algo"], DEFAULT_NS)
    known = ["p", "q", "s"]

    def open_store(path):
        from ..common import open_store as _open
        return _open(path, **cfg)
    try:
        pool = WorldPool(os.path.join(scratch, "w"), contents, {}, **cfg)
        for hidx, h in enumerate(histories):
            w = pool.fresh(pids=known)
            ok = True
            for i in h:
                out, findings, _b, _a = w.step(menu[i], check_retrievable=False)
                if findings:
                    for f in findings:
                        res.foreign[f.tag] = res.foreign.get(f.tag, 0) + 1
                    ok = False
                    break
            if not ok:
                continue
            start = w.abstract()
            referenced = {p: c for p, c in w.model.bound.items() if c in w.model.objects}
            combos = list(itertools.product(["s", "p"], ["A", "B", "C"], VALIDATIONS, ["path", "bytesio"]))
            if tier == "quick" or len(h) == 3:
                combos = rng.sample(combos, 24)
            for subject, cname, v, kind in combos:
                data = contents[cname]
                checksum, algo, size, valid = validation_args(v, data)
                roots = []
                for side in ("one", "two"):
                    r = os.path.join(scratch, side)
                    rmtree(r)
                    shutil.copytree(w.root, r)
                    roots.append(r)
                s1, s2 = open_store(roots[0]), open_store(roots[1])

                def arg():
                    import io
                    return w.data_path(cname) if kind == "path" else io.BytesIO(data)
                o1 = call(s1.store_object, subject, arg(), None, checksum, algo, size)
                m = call(s2.store_object, None, arg())
                steps = [m]
                o2 = m
                if m.ok and v != "absent":
                    o2 = call(s2.delete_if_invalid_object, m.value, checksum, algo, size)
                    steps.append(o2)
                if o2.ok and m.ok:
                    o2 = call(s2.tag_object, subject, m.value.cid)
                    steps.append(o2)
                a1 = abstract(roots[0], lay, known)
                a2 = abstract(roots[1], lay, known)
                res.evaluations += 1
                res.count("pairs_compared")
                res.count("valid_pairs" if valid else "invalid_pairs")
                res.distinct.add(str(hash((start.key(), subject, cname, v, kind))))
                wit = {"engine": "C19", "history": [menu[i] for i in h], "subject": subject, "content": cname,
                       "validation": v, "kind": kind, "one_call": o1.brief(), "steps": [s.brief() for s in steps],
                       "contents": SPEC}
                shape = {"validation": v.split(":")[0], "subject_bound": subject in w.model.bound,
                         "content_present": lay.cid_of(data) in start.objects,
                         "content_referenced": lay.cid_of(data) in start.cid_refs}
                if valid:
                    if o1.ok != o2.ok or (not o1.ok and o1.cls != o2.cls):
                        res.violation(dict(shape, symptom="outcome-differs", one=o1.brief(), two=o2.brief()), wit)
                    elif a1.key() != a2.key():
                        wit["one"] = a1.describe()
                        wit["two"] = a2.describe()
                        res.violation(dict(shape, symptom="state-differs"), wit)
                    elif o1.ok:
                        mv = m.value
                        ov = o1.value
                        dd = {k: ov.hex_digests.get(k) for k in DEFAULT_ALGOS} != {k: mv.hex_digests.get(k) for k in DEFAULT_ALGOS}
                        if ov.cid != mv.cid or ov.obj_size != mv.obj_size or dd:
                            res.violation(dict(shape, symptom="reported-values-differ"), wit)
                else:
                    if o1.ok or o2.ok:
                        res.violation(dict(shape, symptom="invalid-data-accepted", one=o1.brief(), two=o2.brief()), wit)
                    elif (o1.cls != o2.cls or (o1.cls == "mismatch" and o1.exc_name != o2.exc_name)) and \
                            not (subject in w.model.bound):
                        res.violation(dict(shape, symptom="error-kind-differs", one=o1.brief(), two=o2.brief()), wit)
                    for side, (a, st) in (("one", (a1, s1)), ("two", (a2, s2))):
                        if subject not in w.model.bound and subject in a.pid_refs:
                            res.violation(dict(shape, symptom="pid-bound-after-invalid", side=side), wit)
                        for p, c in referenced.items():
                            r = call(st.retrieve_object, p)
                            if not r.ok or lay.cid_of(read_all_and_close(r.value)) != c:
                                res.violation(dict(shape, symptom="referenced-object-disturbed", side=side), wit)
                                break
                if res.evaluations % 500 == 1:
                    res.sample({"history": [op_shape(menu[i]) for i in h], "subject": subject, "content": cname,
                                "validation": v, "one_call": o1.brief(), "stepwise": [s.brief() for s in steps]})
            clear_atexit_tmp_handlers()
    finally:
        rmtree(scratch)
    return res


REPLAY_BY_RERUN = True     # (see runner.run_property: the recorded tier / seed workload is re-executed)


def replay(witness):
    raise NotImplementedError("replayed by re-running the recorded workload")
