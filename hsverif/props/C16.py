"""C16 - multiprocessing mode behaves identically and excludes across processes."""

import os
import random

from .. import concprops as P
from .. import concengine as C
from .. import freerun as FR
from .. import sched as S
from ..absstate import abstract, Layout
from ..common import (ncpu, split_seeds, new_scratch, rmtree, Inconclusive, clear_atexit_tmp_handlers, jsonable,
                      DEFAULT_NS, load_repo)
from ..gen import chunk, op_shape, make_content, random_object_op, random_meta_op
from ..model import Model
from ..runner import ShardResult
from ..seqengine import World

ID = "C16"
LEVEL = "exploration"
RULE = ("(a) mode equivalence: seeded random call sequences (length 25, whole public API, C05/C11 shapes) are executed "
        "on a store built with USE_MULTIPROCESSING=True and on one built without; after EVERY call the exception "
        "class and the directory abstraction must be equal (and the multiprocessing locked-identifier lists empty). "
        "(b) the C07/C12 pair scenarios re-run through the *_mp code paths under the cooperative scheduler (the *_mp "
        "conditions / lists replaced by scheduler-owned ones: this exercises hashstore's duplicated logic, not the OS "
        "primitives): all schedules with <= c preemptions (c=1 quick on a seeded half, c=2 thorough on all) with the "
        "C07/C12/C08 oracles. (c) REAL forked worker processes (fork start method, store created in the parent, "
        "USE_MULTIPROCESSING=True): short histories of 3-4 processes x 2-3 calls over 2 pids, 2 contents, 1 format "
        "with seeded micro-delays at file-system calls; every call is recorded at the client boundary on "
        "CLOCK_MONOTONIC and a Wing-Gong search against the reference model decides linearizability; exit statuses "
        "must be 0, no worker may hang, the manager-backed lists must be empty afterwards. (d) error paths: every C13 fault "
        "site (EIO, one-off / persistent) injected into the same call in both modes; outcome, problems and API-visible "
        "post-state must be equal. distinct_nontrivial = "
        "distinct (a) (state, call shape) transitions compared + (b) (scenario, interleaving) + (c) histories.")
ASSUMPTIONS = ["cross-process interleavings cannot be controlled (the kernel schedules them), only provoked: part (c) is "
               "stress + history checking and is reported as such",
               "part (b) replaces the *_mp primitives by scheduler-owned ones, so it judges the duplicated code paths, "
               "not multiprocessing.Condition itself"]
SYMPTOMS = {"deadlock", "outcome-not-sequential", "state-not-sequential", "leaked-lock", "follow-up-blocked",
            "mode-outcome-differs", "mode-state-differs", "mp-call-error", "mp-list-not-empty", "worker-exit-status",
            "worker-hang", "history-not-linearizable"}
WATCHDOG_S = 7200

SPEC = {"A": {"cseed": 161, "size": 700}, "B": {"cseed": 162, "size": 9000}}
DOCS = {"d1": {"cseed": 163, "size": 30}, "d2": {"cseed": 164, "size": 8300}}


def shards(tier, seed):
    n = ncpu()
    out = []
    for s in split_seeds(seed * 1000 + 16, n):
        out.append(("equiv", 7 if tier == "quick" else 125, s))
    rng = random.Random(seed * 1000 + 161)
    objs = [s.to_json() for s in P.object_pair_scenarios(mode="mp")]
    metas = [s.to_json() for s in P.meta_pair_scenarios(mode="mp")]
    if tier == "quick":
        rng.shuffle(objs)
        rng.shuffle(metas)
        objs, metas = objs[: len(objs) // 3], metas[: len(metas) // 3]
    allp = objs + metas
    rng.shuffle(allp)
    for c, s in zip(chunk(allp, n * 2), split_seeds(seed + 162, n * 2)):
        out.append(("sched", c, 1 if tier == "quick" else 2, 3 if tier == "quick" else 20, s))
    # third-party wake-ups (two contenders + a call on an unrelated identifier that shares their condition), mp branch
    wake = [sc.to_json() for sc in P.object_wakeup_triples("mp") + P.meta_wakeup_triples("mp")]
    for c, s in zip(chunk(wake, len(wake)), split_seeds(seed + 164, len(wake))):
        out.append(("sched", c, 1, 12 if tier == "quick" else 60, s, 300 if tier == "quick" else 3000))
    for s in split_seeds(seed * 1000 + 163, n):
        out.append(("procs", 8 if tier == "quick" else 320, s))
    # (e) pause-and-race: a process forked from the initialising process performs B inside A's window
    for i in range(len(PAUSE_PAIRS)):
        out.append(("pause", i, tier))
    from .. import faultengine as F
    for c in chunk(list(range(len(F.CASES))), n):
        out.append(("faults", c, tier))
    return out


def min_required(tier):
    return {"fault_runs_compared": 80, "equiv_calls_compared": 1200, "schedules": 3000, "process_histories": 60, "process_calls_recorded": 400,
            "pause_runs": 50}


def mp_store_world(scratch, name, contents, docs, pids, fmts):
    os.environ["USE_MULTIPROCESSING"] = "True"
    try:
        w = World(scratch, contents, docs, pids=pids, fmts=fmts, store_dir=name)
    finally:
        os.environ["USE_MULTIPROCESSING"] = "False"
    return w


def mp_mode_entered(store):
    """Representation-independent: the instance says so, or it (or a helper object of the hashstore package it holds)
    carries a multiprocessing synchronisation primitive / manager proxy."""
    if getattr(store, "use_multiprocessing", False):
        return True

    def visit(obj, depth):
        try:
            vals = list(vars(obj).values())
        except TypeError:
            return False
        for v in vals:
            mod = type(v).__module__ or ""
            if mod.startswith("multiprocessing"):
                return True
            if depth < 2 and mod.split(".")[0] == "hashstore" and not isinstance(v, type) and visit(v, depth + 1):
                return True
        return False
    return visit(store, 0)


def mp_lists(store):
    """The multiprocessing-mode locked-identifier lists of an instance (None when it has none)."""
    out = S.locked_lists_generic(store, "_mp")
    return out or None


def run_equiv(n, sub_seed, fixed_ops=None):
    res = ShardResult()
    rng = random.Random(sub_seed)
    contents = {k: make_content(v["cseed"], v["size"]) for k, v in SPEC.items()}
    docs = {k: make_content(v["cseed"], v["size"]) for k, v in DOCS.items()}
    pids = ["p", "pq", "q"]
    fmts = [None, "f1"]
    lay = Layout(3, 2, "SHA-256", DEFAULT_NS)
    for k in range(n):
        scratch = new_scratch("c16a")
        try:
            wt = World(scratch, contents, docs, pids=pids, fmts=fmts, store_dir="th")
            wm = mp_store_world(scratch, "mp", contents, docs, pids, fmts)
            if not mp_mode_entered(wm.store):
                res.inconclusive.append("store built with USE_MULTIPROCESSING=True did not enter multiprocessing mode")
                return res
            ops = []
            for _ in range(25):
                ops.append(random_meta_op(rng, pids, fmts, list(DOCS)) if rng.random() < 0.25 else
                           random_object_op(rng, pids, ["A", "B"], kinds=("path", "file", "bytesio")))
            if fixed_ops is not None:
                ops = fixed_ops     # (replay of a recorded call sequence)
            for i, op in enumerate(ops):
                mkey = wt.model.key()
                wt.model.apply(op)
                o1, _e = wt.execute(op)
                o2, _e = wm.execute(op)
                a1, a2 = wt.abstract(), wm.abstract()
                res.evaluations += 1
                res.count("equiv_calls_compared")
                res.distinct.add(str(hash((mkey, op_shape(op)))))
                wit = {"engine": "C16a", "contents": SPEC, "docs": DOCS, "ops": ops[: i + 1],
                       "threading": o1.brief(), "multiprocessing": o2.brief(), "mp_msg": o2.msg}
                shape = {"call": op_shape(op)}
                if (o1.ok, o1.exc_name) != (o2.ok, o2.exc_name):
                    sym = "mp-call-error" if (o1.ok and not o2.ok and o2.exc_name in ("AttributeError", "TypeError", "NameError")) else "mode-outcome-differs"
                    res.violation(dict(shape, symptom=sym, threading=o1.brief(), multiprocessing=o2.brief()), wit)
                    break
                if a1.key() != a2.key():
                    wit["th_state"] = a1.describe()
                    wit["mp_state"] = a2.describe()
                    res.violation(dict(shape, symptom="mode-state-differs"), wit)
                    break
                ml = mp_lists(wm.store)
                if ml is None:
                    # the claimed identifiers are kept in a representation this monitor cannot see (not list attributes
                    # named *_mp): no verdict from the 'claims released' oracle here; the behavioural parts decide
                    res.count("claim_containers_not_visible")
                    continue
                res.count("claim_lists_inspected")
                if any(ml.values()):
                    wit["lists"] = ml
                    res.violation(dict(shape, symptom="mp-list-not-empty"), wit)
                    break
            if k == 0:
                res.sample({"part": "a", "ops": [op_shape(o) for o in ops[:8]]})
            del wm, wt
        finally:
            rmtree(scratch)
            clear_atexit_tmp_handlers()
    return res


def run_histories(n, sub_seed, mode="procs"):
    res = ShardResult()
    rng = random.Random(sub_seed)
    contents = {k: make_content(v["cseed"], v["size"]) for k, v in SPEC.items()}
    docs = {k: make_content(v["cseed"], v["size"]) for k, v in DOCS.items()}
    pids = ["p1", "p2"]
    fmts = [None]
    lay = Layout(3, 2, "SHA-256", DEFAULT_NS)
    scratch = new_scratch("c16c")
    try:
        for k in range(n):
            name = f"h{k}"
            if mode == "procs":
                w = mp_store_world(scratch, name, contents, docs, pids, fmts)
                if not mp_mode_entered(w.store):
                    # (how the mode is represented is the store's business; calls that fail in this mode are reported
                    # by part (a), missing exclusion by the histories below - here it only means: nothing to test)
                    res.inconclusive.append("a store built with USE_MULTIPROCESSING=True shows no sign of multiprocessing mode")
                    return res
            else:
                w = World(scratch, contents, docs, pids=pids, fmts=fmts, store_dir=name)
            # start state
            start = rng.choice([[], [{"op": "store", "pid": "p1", "content": "A", "kind": "path"}],
                                [{"op": "store", "pid": "p1", "content": "A", "kind": "path"},
                                 {"op": "store", "pid": "p2", "content": "A", "kind": "path"}]])
            model = Model(lay, contents, docs)
            for op in start:
                model.apply(op)
                o, _e = w.execute(op)
                if not o.ok:
                    raise Inconclusive(f"start op failed in multiprocessing mode: {o.brief()} {o.msg}")
            for c in contents:
                w.data_path(c)
            for d in docs:
                w.data_path(d, w.docs)
            nproc = rng.choice([3, 4])
            plans = []
            for _ in range(nproc):
                plan = []
                for _ in range(rng.choice([2, 3])):
                    r = rng.random()
                    if r < 0.35:
                        plan.append({"op": "store", "pid": rng.choice(pids), "content": rng.choice(["A", "A", "B"]), "kind": "path"})
                    elif r < 0.6:
                        plan.append({"op": "delete", "pid": rng.choice(pids)})
                    elif r < 0.7:
                        plan.append({"op": "tag", "pid": rng.choice(pids), "cid": ["of", "A"]})
                    elif r < 0.85:
                        plan.append({"op": "smeta", "pid": rng.choice(pids), "fmt": None, "doc": rng.choice(["d1", "d2"]), "kind": "path"})
                    else:
                        plan.append({"op": "dmeta", "pid": rng.choice(pids), "fmt": None})
                plans.append(plan)
            if mode == "procs":
                records, codes, hung = FR.run_processes(w, plans, rng.getrandbits(30))
            else:
                records, hung = FR.run_threads(w, plans, rng.getrandbits(30))
                codes = [0] * len(plans)
            res.evaluations += 1
            res.count("process_histories")
            res.count("process_calls_recorded", len(records))
            res.distinct.add(str(hash(json_key(start, plans))))
            wit = {"engine": "C16c", "start": start, "plans": plans, "exit_codes": codes,
                   "history": [{k2: r.get(k2) for k2 in ("w", "i", "t0", "t1", "ok", "exc", "msg")} for r in records]}
            shape = {"ops": sorted({o["op"] for p in plans for o in p})}
            lists = mp_lists(w.store) if mode == "procs" else S.locked_lists_generic(w.store, "_th")
            if hung:
                # judged by state, not by time alone: after the generous watchdog every unfinished worker must be
                # found PARKED in a condition wait() of the store (stack inspection / faulthandler dump) while all
                # others have finished - nobody is left to notify it - or an identifier must still be claimed
                locked = sorted(k3 for k3, v in (lists or {}).items() if v)
                if hung == "parked-in-wait" or locked:
                    res.violation(dict(shape, symptom="worker-hang", parked_in_wait=(hung == "parked-in-wait"), locked=locked), wit)
                else:
                    res.inconclusive.append("a free-running worker did not finish within the watchdog, is not parked in a "
                                            "store wait() and no identifier is claimed")
                res.notes.append("a free-running history hung; the remaining histories of this shard were skipped")
                break
            if any(c != 0 for c in codes) or any("harness_error" in r for r in records):
                wit["errors"] = [r for r in records if "harness_error" in r]
                res.violation(dict(shape, symptom="worker-exit-status", codes=sorted(set(codes))), wit)
                continue
            if lists and any(lists.values()):
                wit["lists"] = lists
                res.violation(dict(shape, symptom="mp-list-not-empty"), wit)
            final = abstract(w.root, lay, pids, [(p, None) for p in pids])
            verdict, order = FR.linearizable(records, model, final)
            if verdict is None:
                # a checker timeout is neither held nor violated for that history; it makes the whole run
                # inconclusive only when it is frequent (judged in min_required via the counter below)
                res.count("lincheck_timeouts")
                res.notes.append("linearizability search exceeded its budget for a history (counted, not judged)")
            elif verdict is False:
                sig = classify_history(records, final, lay, {}, model)
                res.violation(sig, wit)
            else:
                res.count("histories_linearized")
            if len(res.samples) < 1:
                res.sample({"part": "c", "processes": nproc, "plans": [[op_shape(o) + ":" + str(o.get("pid")) for o in p] for p in plans],
                            "linearization": order})
            del w
            rmtree(os.path.join(scratch, name))
            clear_atexit_tmp_handlers()
    finally:
        rmtree(scratch)
    return res


def json_key(start, plans):
    import json
    return json.dumps([start, plans], sort_keys=True)


def classify_history(records, final, lay, shape, model):
    """Mechanism label for a free-running history that failed the strict linearizability search."""
    return dict(shape, symptom="history-not-linearizable", mechanism=FR.diagnose(records, model, final, lay))


def run_faults(case_idxs, tier):
    """(d) mode equivalence on the error paths: the C13 fault sites, injected in both modes."""
    import errno
    from .. import faultengine as F
    res = ShardResult()
    for ci in case_idxs:
        scratch = new_scratch("c16d")
        try:
            cases = {m: F.Case(ci, __import__("os").path.join(scratch, m), mode=m) for m in ("th", "mp")}
            sites = cases["th"].sites(F.FAULT_KINDS)
            if [o.kind for o in cases["th"].ops] != [o.kind for o in cases["mp"].ops]:
                res.violation({"symptom": "mode-operation-trace-differs", "case": cases["th"].label},
                              {"engine": "C16d", "case": cases["th"].label})
                continue
            for site in sites:
                for persistent in ((False, True) if tier == "thorough" else (site % 2 == 0,)):
                    r = {m: F.run_fault(cases[m], site, errno.EIO, persistent) for m in ("th", "mp")}
                    if r["th"]["fired"] is None:
                        continue
                    res.evaluations += 1
                    res.count("fault_runs_compared")
                    res.distinct.add(repr(("d", ci, site, persistent)))
                    key = {m: (r[m]["outcome"].ok, r[m]["outcome"].exc_name, sorted(p[0] for p in r[m]["problems"]),
                               cases[m].api_view(cases[m].abstract(cases[m].rundir))) for m in r}
                    if key["th"] != key["mp"]:
                        from .C13 import site_class
                        res.violation({"symptom": "mode-outcome-differs", "under": "injected-fault", "case": cases["th"].label,
                                       "site": site_class(cases["th"], r["th"]["fired"]), "threading": r["th"]["outcome"].brief(),
                                       "multiprocessing": r["mp"]["outcome"].brief()},
                                      {"engine": "C16d", "case_index": ci, "site": site, "persistent": persistent,
                                       "th_problems": [p[0] for p in r["th"]["problems"]],
                                       "mp_problems": [p[0] for p in r["mp"]["problems"]], "mp_msg": r["mp"]["outcome"].msg})
            clear_atexit_tmp_handlers()
        except Inconclusive as inc:
            res.inconclusive.append(str(inc))
        finally:
            rmtree(scratch)
    return res


def _pst(pid, c):
    return {"op": "store", "pid": pid, "content": c, "kind": "path"}


def _ptag(pid, c):
    return {"op": "tag", "pid": pid, "cid": ["of", c]}


def _psm(pid, fmt, doc):
    return {"op": "smeta", "pid": pid, "fmt": fmt, "doc": doc, "kind": "path"}


# (start state, A in the parent, B in the forked child); pairs that no known finding touches
PAUSE_PAIRS = [
    ("A-unreferenced", [_pst(None, "A")], _ptag("p1", "A"), _ptag("p2", "A")),
    ("empty", [], _pst("p1", "A"), _pst("p2", "A")),
    ("p1,p2->A", [_pst("p1", "A"), _pst("p2", "A")], {"op": "delete", "pid": "p1"}, {"op": "delete", "pid": "p2"}),
    ("p1->A", [_pst("p1", "A")], _pst("p2", "A"), _ptag("p3", "A")),
    ("empty", [], _psm("p1", "f1", "d1"), _psm("p1", "f1", "d2")),
    ("p1+doc", [_psm("p1", "f1", "d1")], _psm("p1", "f1", "d2"), {"op": "dmeta", "pid": "p1", "fmt": "f1"}),
    ("empty", [], _pst("p1", "A"), _pst("p1", "B")),
    # two taggers of ONE pid to different cids: excluded by the reference-pid claims only (stores are also serialised by
    # the object-pid claims, same-cid taggers by the cid claims)
    ("A,B-unreferenced", [_pst(None, "A"), _pst(None, "B")], _ptag("p1", "A"), _ptag("p1", "B")),
    ("p1->A", [_pst("p1", "A")], {"op": "delete", "pid": "p1"}, _ptag("p1", "B")),
]


def run_pause(idx, tier):
    """(e) deterministic cross-process exclusion evidence, judged by outcomes + final state only."""
    from .. import pauserace as PR
    res = ShardResult()
    sname, start, op_a, op_b = PAUSE_PAIRS[idx]
    contents = {k: make_content(v["cseed"], v["size"]) for k, v in SPEC.items()}
    docs = {k: make_content(v["cseed"], v["size"]) for k, v in DOCS.items()}
    scratch = new_scratch("c16e")
    cfg = dict(depth=3, width=2, algo="SHA-256", ns=DEFAULT_NS)
    try:
        for a, b, tag_ in ((op_a, op_b, "ab"), (op_b, op_a, "ba")):
            sub = os.path.join(scratch, tag_)
            os.makedirs(sub)
            pr = PR.PauseRace(sub, start, a, b, contents, docs, ["p1", "p2", "p3"], [None, "f1"], cfg)
            nsites = pr.count_sites()
            res.count("pause_sites", nsites)
            for site in range(nsites):
                r = pr.run(site)
                res.evaluations += 1
                res.count("pause_runs")
                res.distinct.add(repr((idx, tag_, site)))
                if r.get("child_hung") or r.get("b") is None or "harness_error" in (r.get("b") or {}):
                    if r.get("child_hung") == "unknown":
                        res.inconclusive.append("pause-and-race: the child did not finish within 60 s and is not parked in a wait of the store")
                    elif r.get("child_hung"):
                        res.violation({"symptom": "worker-hang", "engine": "pause-and-race", "calls": sorted([op_shape(a), op_shape(b)]), "start": sname},
                                      {"engine": "C16e", "pair": idx, "order": tag_, "site": site, "result": jsonable(r)})
                    else:
                        res.inconclusive.append(f"pause-and-race child failed: {r.get('b')}")
                    continue
                if r["child_finished_during_pause"]:
                    res.count("child_completed_inside_the_window")
                elif r["child_finished_during_pause"] is False:
                    res.count("child_waited_for_the_parent")
                if not r["in_spec"]:
                    res.violation({"symptom": "mode-outcome-differs" if not r["outcomes_in_spec"] else "mode-state-differs",
                                   "engine": "pause-and-race", "calls": sorted([op_shape(a), op_shape(b)]), "start": sname,
                                   "child_ran_inside_the_window": bool(r["child_finished_during_pause"])},
                                  {"engine": "C16e", "pair": idx, "order": tag_, "site": site, "result": jsonable(r)})
            if len(res.samples) < 1:
                res.sample({"part": "e", "pair": sname, "A": op_shape(a), "B": op_shape(b), "sites": nsites})
    except Inconclusive as inc:
        res.inconclusive.append(str(inc))
    finally:
        rmtree(scratch)
        clear_atexit_tmp_handlers()
    return res


def run_shard(kind, *args):
    if kind == "pause":
        return run_pause(*args)
    if kind == "equiv":
        return run_equiv(*args)
    if kind == "faults":
        return run_faults(*args)
    if kind == "procs":
        return run_histories(*args)
    scns, bound, n_random, sub_seed = args[:4]
    budget = args[4] if len(args) > 4 else None
    # check first that the mode is really entered, otherwise part (b) would silently test threading
    scratch = new_scratch("c16b")
    try:
        w = mp_store_world(scratch, "probe", {}, {}, [], [None])
        if not mp_mode_entered(w.store):
            res = ShardResult()
            res.evaluations = 1
            res.inconclusive.append("a store built with USE_MULTIPROCESSING=True shows no sign of multiprocessing mode")
            return res
        del w
    finally:
        rmtree(scratch)
    return P.run_scenarios(scns, bound, n_random, 0, sub_seed, SYMPTOMS, budget=budget, normalise=__import__("hsverif.props.C12", fromlist=["x"]).normalise_reader)


def replay(witness):
    if witness.get("engine") == "conc":
        return P.replay_witness(witness, SYMPTOMS)
    if witness.get("engine") == "C16a":
        return run_equiv(1, 0, fixed_ops=witness["ops"])
    if witness.get("engine") == "C16d":
        return run_faults([witness["case_index"]], "thorough")
    res = ShardResult()
    print(jsonable(witness))
    res.evaluations = 1
    res.inconclusive.append("a C16 (c) witness is a recorded history of OS-scheduled processes: it is evidence, not a "
                            "deterministic script; re-run the check to look for the mechanism again")
    return res
