"""C12 - concurrent metadata operations are atomic and linearizable."""

import random

from .. import concprops as P
from .. import concengine as C
from ..common import ncpu, split_seeds
from ..gen import chunk

ID = "C12"
LEVEL = "exploration"
RULE = ("scenario = start {document absent/present} x {pid unbound/bound to an object} + a pair of calls from "
        "{store_metadata v1 / v2 (different lengths, v2 multi-buffer) on format f1, store on f2, store on the default "
        "format, retrieve_metadata (f1 / default; the reader opens, reads 7 bytes, yields, reads the rest), "
        "delete_metadata(f1), delete_metadata(all), delete_object} on ONE pid - every pair (two readers excluded); "
        "plus sampled triples. Run on the real code under the cooperative scheduler: all schedules with <= c "
        "preemptions (c=1 quick / 2 thorough) + random walks; triples by PCT and random walks; plus random / PCT schedules "
        "with statement-level yield points (sys.monitoring LINE events) on 64 (quick) / all (thorough) pair scenarios. Oracle: (outcomes incl. "
        "the exact bytes a reader got, final directory abstraction) equals some sequential order run on the same "
        "code; for the READER a FileNotFoundError is accepted as a not-found error next to the sequential ValueError. "
        "distinct_nontrivial = distinct (scenario, interleaving) pairs.")
ASSUMPTIONS = ["yield points = shared file-system calls + condition operations (DESIGN.md 3.4/6)",
               "the sequential specification is the implementation run without preemption"]
SYMPTOMS = {"deadlock", "outcome-not-sequential", "state-not-sequential"}
WATCHDOG_S = 7200


def shards(tier, seed):
    pairs = [s.to_json() for s in P.meta_pair_scenarios()]
    rng = random.Random(seed * 1000 + 12)
    triples = [s.to_json() for s in P.meta_triple_scenarios(rng, 32 if tier == "quick" else 800)]
    rng.shuffle(pairs)
    n = ncpu()
    out = []
    line_scns = list(pairs)
    random.Random(seed * 1000 + 121).shuffle(line_scns)
    for c, s in zip(chunk(line_scns[:64] if tier == "quick" else line_scns, n), split_seeds(seed + 122, n)):
        out.append(("statement-level", c, 6 if tier == "quick" else 50, 0, s))
    for c, s in zip(chunk(line_scns, n), split_seeds(seed + 123, n)):
        out.append(("statement-level", c, 0, 8 if tier == "quick" else 100, s))
    wake = [sc.to_json() for sc in P.meta_wakeup_triples()]
    for c, s in zip(chunk(wake, len(wake)), split_seeds(seed + 124, len(wake))):
        out.append((c, 1, 20 if tier == "quick" else 60, 10 if tier == "quick" else 60, s, 500 if tier == "quick" else 4000))
    if tier == "quick":
        for c, s in zip(chunk(pairs, n * 2), split_seeds(seed + 12, n * 2)):
            out.append((c, 1, 6, 0, s, None))
        for c, s in zip(chunk(triples, n), split_seeds(seed + 121, n)):
            out.append((c, 0, 10, 10, s, 1))
    else:
        for c, s in zip(chunk(pairs, n * 4), split_seeds(seed + 12, n * 4)):
            out.append((c, 2, 30, 0, s, None))
        for c, s in zip(chunk(triples, n * 2), split_seeds(seed + 121, n * 2)):
            out.append((c, 1, 60, 120, s, 400))
    return out


def min_required(tier):
    return {"schedules": 3000, "scenarios": 100, "reader_observations": 300}


def reader_relaxation(runner, ob):
    """Adds nothing; counts reader observations (the statement's reader clause is judged through the
    sequential comparison of the bytes it returned)."""
    return []


def run_shard(*args):
    if args[0] == "statement-level":
        _k, scns, n_line, n_sync, sub_seed = args
        return P.run_scenarios(scns, 0, 0, 0, sub_seed, SYMPTOMS, n_line=n_line, n_sync=n_sync, skip_dfs=True,
                               normalise=normalise_reader)
    scns, bound, n_random, pct, sub_seed, budget = args
    res = P.run_scenarios(scns, bound, n_random, pct, sub_seed, SYMPTOMS, budget=budget,
                          normalise=normalise_reader)
    return res


def normalise_reader(scn, okeys):
    """FileNotFoundError from the reader counts as the sequential not-found error (ValueError)."""
    out = []
    n = 0
    for op, k in zip(scn.calls, okeys):
        if op["op"] == "rmeta":
            n += 1
            if k == ("err", "FileNotFoundError"):
                k = ("err", "ValueError")
        out.append(k)
    return tuple(out), n


def replay(witness):
    return P.replay_witness(witness, SYMPTOMS, normalise=normalise_reader)
