"""C20 - the command-line client is a faithful front end to the API."""

import contextlib
import hashlib
import io
import itertools
import logging
import os
import random
import shutil
import sys

from ..absstate import abstract, Layout
from ..common import (DEFAULT_NS, STORE_ALGOS, new_scratch, rmtree, split_seeds, ncpu, call, open_store, load_repo,
                      clear_atexit_tmp_handlers, read_all_and_close, Outcome)
from ..gen import chunk, make_content
from ..runner import ShardResult

ID = "C20"
LEVEL = "exploration"
RULE = ("every client verb (-chs, -storeobject, -retrieveobject, -deleteobject, -storemetadata, -retrievemetadata, "
        "-deletemetadata, -getchecksum) x every subset of its documented options (-algo, -checksum, -checksum_algo, "
        "-obj_size, -formatid) x valid / invalid values (wrong checksum, wrong size, non-numeric size, unsupported "
        "algorithm, checksum without algorithm, unknown pid), from an empty and a populated start store. "
        "hashstoreclient.main() is run in-process (patched sys.argv, captured stdout) on one copy of the store and "
        "the API call with the same values - typed as the API requires - on another copy. Oracle: equal directory "
        "abstraction (python_client.log ignored), printed cid / digests / path / content equal to the API return, "
        "equal exception class; client-created stores open through the API with the same properties and vice "
        "versa; store options (-dp/-wp/-ap/-nsp) on an ordinary verb do not override the pinned configuration; -chs on an "
        "existing store behaves like the constructor; a relative -path is resolved against the working directory; two "
        "stores with different configurations are used alternately by the client in one process. distinct_nontrivial = "
        "distinct (verb, option subset, value classes, start state).")
ASSUMPTIONS = ["-knbvm paths need a Postgres server and are out of reach in the sandbox",
               "the client substitutes the default namespace for an omitted -formatid on all three metadata verbs; "
               "the oracle uses that documented substitution (so '-deletemetadata' without -formatid is compared with "
               "delete_metadata(pid, default namespace))"]

ASCII = b"line one of an ASCII object\n" * 40


def run_client(argv):
    """Run hashstoreclient.main() in-process; returns (Outcome, stdout text)."""
    client = load_repo().get("client")
    if client is None:
        import importlib
        client = importlib.import_module("hashstore.hashstoreclient")
        load_repo()["client"] = client
    old = sys.argv
    sys.argv = ["hashstore"] + argv
    buf = io.StringIO()
    errbuf = io.StringIO()
    try:
        with contextlib.redirect_stdout(buf), contextlib.redirect_stderr(errbuf):
            try:
                out = Outcome(True, client.main())
            except SystemExit as se:
                out = Outcome(False, exc=RuntimeError(f"SystemExit({se.code}): {errbuf.getvalue()[-200:]}"))
                out.exc_name = "SystemExit"
            except Exception as err:  # noqa
                out = Outcome(False, exc=err)
    finally:
        sys.argv = old
        # the client configures root logging with a FileHandler into the store; detach it so the next
        # invocation (another store) is configured afresh exactly like a new process would be
        root = logging.getLogger()
        for h in list(root.handlers):
            root.removeHandler(h)
            with contextlib.suppress(Exception):
                h.close()
    return out, buf.getvalue()


VARIANTS = [
    # (depth, width, store algorithm, -algo value, -checksum_algo value, object bytes)
    (3, 2, "SHA-256", "sha224", "md5", ASCII),
    (1, 1, "MD5", "SHA3-256", "SHA-1", b"short ascii\n"),
    (2, 4, "SHA-512", "blake2b", "sha3_256", b"0123456789" * 150),      # longer than the 1000 bytes the client prints
    (5, 1, "SHA-1", "SHA-384", "blake2s", b"x"),
]


def shards(tier, seed):
    cases = build_cases()
    out = []
    nvar = 1 if tier == "quick" else len(VARIANTS)
    for v in range(nvar):
        out += [(c, s, v) for c, s in zip(chunk(cases, ncpu() // (1 if tier == "quick" else 2)),
                                          split_seeds(seed * 1000 + 20 + v, ncpu()))]
    return out


def min_required(tier):
    return {"client_vs_api_compared": 150, "stdout_values_checked": 20}


def subsets(opts):
    for n in range(len(opts) + 1):
        yield from itertools.combinations(opts, n)


def build_cases():
    cases = []
    for state in ("empty", "populated"):
        for sub in subsets(["algo", "checksum", "checksum_algo", "obj_size"]):
            for variant in ("valid", "wrong_checksum", "wrong_size", "nonnumeric_size", "bad_algo", "upper", "empty_values"):
                if variant == "empty_values" and not sub:
                    continue
                if variant == "wrong_checksum" and "checksum" not in sub:
                    continue
                if variant in ("wrong_size", "nonnumeric_size") and "obj_size" not in sub:
                    continue
                if variant == "bad_algo" and not ({"algo", "checksum_algo"} & set(sub)):
                    continue
                if variant == "upper" and "checksum" not in sub:
                    continue
                for pid in (("new.pid",) if state == "empty" else ("new.pid", "k1")):
                    cases.append(("storeobject", sub, variant, state, pid))
        for verb in ("storemetadata", "retrievemetadata", "deletemetadata"):
            for sub in subsets(["formatid"]):
                for pid in ("k1", "nometa"):
                    cases.append((verb, sub, "valid", state, pid))
        for verb in ("retrieveobject", "deleteobject"):
            for pid in ("k1", "k2", "unknown.pid"):
                cases.append((verb, (), "valid", state, pid))
        for algo in ("sha256", "SHA-256", "md5", "sha3_256", "blake2b", "sha999", None):
            for pid in ("k1", "unknown.pid"):
                cases.append(("getchecksum", ("algo",) if algo else (), algo or "missing", state, pid))
    # option values given as SEPARATE arguments ('-pid value'), and values that an argument parser may take for something
    # else: a leading '@' (arguments-file prefix), a leading '-', '=' inside
    for state in ("empty", "populated"):
        for pid in ("@at.pid", "sep.pid", "a=b=c", "-dash.pid"):
            cases.append(("storeobject", (), "valid", state, pid))
            cases.append(("storemetadata", ("formatid",), "valid", state, pid))
            cases.append(("retrieveobject", (), "valid", state, pid))
    for state in ("empty", "populated"):
        cases.append(("storeobject+store-options", ("dp", "wp"), "valid", state, "new.pid"))
        cases.append(("storemetadata+relative-path", (), "valid", state, "k1"))
        cases.append(("chs-again", (), "other-depth", state, "new.pid"))
        cases.append(("chs-again", (), "same", state, "new.pid"))
    cases.append(("two-stores", (), "valid", "none", "x"))
    for d, w, a in ((3, 2, "SHA-256"), (1, 1, "MD5"), (2, 4, "SHA-512"), (5, 1, "SHA-1"), (2, 2, "sha256"), (2, 2, "SHA-224")):
        cases.append(("chs", (), "valid", "none", (d, w, a)))
        cases.append(("api_created", (), "valid", "none", (d, w, a)))
    return cases


def run_shard(cases, sub_seed, vidx=0):
    res = ShardResult()
    scratch = new_scratch("c20")
    vd, vw, valgo, v_algo_opt, v_calgo_opt, vbytes = VARIANTS[vidx]
    lay = Layout(vd, vw, valgo, DEFAULT_NS)
    ASCII = vbytes

    def open_store(path, d=vd, w=vw, a=valgo, ns=DEFAULT_NS):
        from ..common import open_store as _open
        return _open(path, d, w, a, ns)
    known = ["new.pid", "k1", "k2", "nometa", "unknown.pid"]
    known_meta = [(p, f) for p in known for f in (None, "fmtX")]
    try:
        objp = os.path.join(scratch, "obj.txt")
        open(objp, "wb").write(ASCII)
        other = os.path.join(scratch, "other.txt")
        open(other, "wb").write(b"another ascii object, longer than the 1000 bytes the client prints\n" * 30)
        docp = os.path.join(scratch, "doc.xml")
        open(docp, "wb").write(b"<?xml version='1.0'?><sysmeta>ascii</sysmeta>\n")
        docx = os.path.join(scratch, "docx.xml")
        open(docx, "wb").write(b"<other-format>a different ascii document for fmtX</other-format>\n")
        templates = {}
        for state in ("empty", "populated"):
            root = os.path.join(scratch, "tmpl_" + state)
            st = open_store(root)
            if state == "populated":
                st.store_object("k1", other)
                st.store_object("k2", other)
                st.store_metadata("k1", docp)
                st.store_metadata("k1", docx, "fmtX")
            templates[state] = root
        for n, (verb, sub, variant, state, pid) in enumerate(cases):
            res.evaluations += 1
            res.distinct.add(repr((verb, sub, variant, state, pid, vd, vw, valgo)))
            wit = {"engine": "C20", "verb": verb, "options": list(sub), "variant": variant, "state": state, "pid": repr(pid)}
            shape = {"verb": verb, "options": list(sub), "variant": variant}
            if verb in ("chs", "api_created"):
                d, w, a = pid
                root = os.path.join(scratch, "created")
                rmtree(root)
                if verb == "chs":
                    o1, _txt = run_client([root, "-chs", f"-dp={d}", f"-wp={w}", f"-ap={a}", f"-nsp={DEFAULT_NS}"])
                    o2 = call(open_store, root, d, w, a, DEFAULT_NS)
                    ref = os.path.join(scratch, "created_ref")
                    rmtree(ref)
                    o3 = call(open_store, ref, d, w, a, DEFAULT_NS)
                    res.count("client_vs_api_compared")
                    if o1.ok != o3.ok:
                        res.violation(dict(shape, symptom="create-outcome-differs", client=o1.brief(), api=o3.brief()), wit)
                    elif o1.ok and not o2.ok:
                        res.violation(dict(shape, symptom="client-created-store-not-openable-by-api", api=o2.brief()), wit)
                    elif not o1.ok and os.path.exists(os.path.join(root, "hashstore.yaml")):
                        res.violation(dict(shape, symptom="failed-create-left-configuration"), wit)
                    elif o1.ok:
                        y1 = open(os.path.join(root, "hashstore.yaml")).read()
                        y2 = open(os.path.join(ref, "hashstore.yaml")).read()
                        if y1 != y2:
                            res.violation(dict(shape, symptom="configuration-differs"), wit)
                    rmtree(ref)
                else:
                    o3 = call(open_store, root, d, w, a, DEFAULT_NS)
                    if o3.ok:
                        o1, txt = run_client([root, "-storeobject", "-pid=x", f"-path={objp}"])
                        res.count("client_vs_api_compared")
                        if not o1.ok:
                            res.violation(dict(shape, symptom="api-created-store-not-usable-by-client", client=o1.brief()), wit)
                        else:
                            r = call(o3.value.retrieve_object, "x")
                            if not r.ok or read_all_and_close(r.value) != ASCII:
                                res.violation(dict(shape, symptom="client-stored-object-not-visible-to-api"), wit)
                rmtree(root)
                continue
            if verb == "two-stores":
                # two stores with different configurations used alternately by the client in ONE process
                from ..absstate import Layout as _L
                r1, r2 = os.path.join(scratch, "two_a"), os.path.join(scratch, "two_b")
                rmtree(r1); rmtree(r2)
                o = []
                o.append(run_client([r1, "-chs", "-dp=3", "-wp=2", "-ap=SHA-256", f"-nsp={DEFAULT_NS}"])[0])
                o.append(run_client([r2, "-chs", "-dp=1", "-wp=1", "-ap=MD5", "-nsp=urn:other:ns"])[0])
                o.append(run_client([r1, "-storeobject", "-pid=pa", f"-path={objp}"])[0])
                o.append(run_client([r2, "-storeobject", "-pid=pb", f"-path={objp}"])[0])
                o.append(run_client([r1, "-storemetadata", "-pid=pa", f"-path={docp}"])[0])
                o.append(run_client([r2, "-storemetadata", "-pid=pb", f"-path={docp}"])[0])
                o.append(run_client([r1, "-storeobject", "-pid=pa2", f"-path={objp}"])[0])
                res.count("client_vs_api_compared")
                bad = [x.brief() for x in o if not x.ok]
                if bad:
                    res.violation(dict(shape, symptom="two-stores-in-one-process:client-call-failed", first=bad[0]), wit)
                else:
                    for root_, cfg_, pids_ in ((r1, (3, 2, "SHA-256", DEFAULT_NS), ["pa", "pa2"]), (r2, (1, 1, "MD5", "urn:other:ns"), ["pb"])):
                        lay_ = _L(*cfg_)
                        a_ = abstract(root_, lay_, pids_, [(p_, None) for p_ in pids_])
                        want_cid = lay_.cid_of(ASCII)
                        ok_ = (set(a_.objects) == {want_cid} and all(a_.pid_refs.get(p_) == want_cid for p_ in pids_)
                               and sorted(a_.cid_lines(want_cid) or []) == sorted(pids_) and not a_.alien and not a_.residue
                               and (pids_[0], cfg_[3]) in a_.metadata)
                        if not ok_:
                            wit["state"] = a_.describe()
                            res.violation(dict(shape, symptom="two-stores-in-one-process:wrong-store-contents"), wit)
                            break
                rmtree(r1); rmtree(r2)
                continue
            ra, rb = os.path.join(scratch, "cli"), os.path.join(scratch, "api")
            for r in (ra, rb):
                rmtree(r)
                shutil.copytree(templates[state], r)
            api = open_store(rb)
            argv = [ra, "-" + verb, f"-pid={pid}"]
            separate = isinstance(pid, str) and pid in ("@at.pid", "sep.pid", "a=b=c")
            if separate:
                argv = [ra, "-" + verb, "-pid", pid]
            if verb == "storeobject":
                from ..model import canon_algo
                algo = v_algo_opt if variant != "bad_algo" else "sha999"
                calgo = v_calgo_opt if variant != "bad_algo" else "md9"
                checksum = hashlib.new(canon_algo(v_calgo_opt), ASCII).hexdigest()
                if variant == "wrong_checksum":
                    checksum = "0" * len(checksum)
                if variant == "upper":
                    checksum = checksum.upper()
                size = len(ASCII) + (5 if variant == "wrong_size" else 0)
                size_txt = "12x" if variant == "nonnumeric_size" else str(size)
                kw = dict(additional_algorithm=None, checksum=None, checksum_algorithm=None, expected_object_size=None)
                argv.append(f"-path={objp}")
                if variant == "empty_values":
                    # an option given with an EMPTY value is a value, not an absent option
                    algo = calgo = checksum = ""
                    size_txt = ""
                if "algo" in sub:
                    argv.append(f"-algo={algo}")
                    kw["additional_algorithm"] = algo
                if "checksum" in sub:
                    argv.append(f"-checksum={checksum}")
                    kw["checksum"] = checksum
                if "checksum_algo" in sub:
                    argv.append(f"-checksum_algo={calgo}")
                    kw["checksum_algorithm"] = calgo
                if "obj_size" in sub:
                    argv.append(f"-obj_size={size_txt}")
                    kw["expected_object_size"] = size
                o1, txt = run_client(argv)
                if variant == "nonnumeric_size" or (variant == "empty_values" and "obj_size" in sub):
                    # no typed API equivalent exists: the client must fail and leave the store alone
                    o2 = Outcome(False, exc=ValueError("non-numeric size"))
                else:
                    o2 = call(api.store_object, pid, objp, kw["additional_algorithm"], kw["checksum"],
                              kw["checksum_algorithm"], kw["expected_object_size"])
                if o1.ok and o2.ok:
                    res.count("stdout_values_checked")
                    m = o2.value
                    if m.cid not in txt or str(m.obj_size) not in txt or any(v not in txt for v in m.hex_digests.values()):
                        wit["stdout"] = txt[:500]
                        res.violation(dict(shape, symptom="printed-metadata-differs"), wit)
            elif verb == "storeobject+store-options":
                # store options on an ordinary verb must not override the pinned configuration
                argv = [ra, "-storeobject", f"-pid={pid}", f"-path={objp}", "-dp=5", "-wp=1", "-ap=MD5", "-nsp=urn:ignored"]
                o1, txt = run_client(argv)
                o2 = call(api.store_object, pid, objp)
            elif verb == "storemetadata+relative-path":
                cwd0 = os.getcwd()
                os.chdir(os.path.dirname(docp))
                try:
                    argv = [ra, "-storemetadata", f"-pid={pid}", f"-path={os.path.basename(docp)}"]
                    o1, txt = run_client(argv)
                    o2 = call(api.store_metadata, pid, os.path.basename(docp), DEFAULT_NS)
                finally:
                    os.chdir(cwd0)
            elif verb == "chs-again":
                dd = vd + 1 if variant == "other-depth" else vd
                argv = [ra, "-chs", f"-dp={dd}", f"-wp={vw}", f"-ap={valgo}", f"-nsp={DEFAULT_NS}"]
                o1, txt = run_client(argv)
                o2 = call(open_store, rb, dd, vw, valgo, DEFAULT_NS)
            elif verb == "getchecksum":
                if "algo" in sub:
                    argv.append(f"-algo={variant}")
                o1, txt = run_client(argv)
                o2 = call(api.get_hex_digest, pid, variant) if "algo" in sub else Outcome(False, exc=ValueError("algo required"))
                if o1.ok and o2.ok:
                    res.count("stdout_values_checked")
                    if o2.value not in txt:
                        res.violation(dict(shape, symptom="printed-digest-differs"), wit)
            elif verb in ("storemetadata", "retrievemetadata", "deletemetadata"):
                fmt = "fmtX" if "formatid" in sub else None
                if fmt:
                    argv.append(f"-formatid={fmt}")
                if verb == "storemetadata":
                    argv.append(f"-path={docp}")
                    o1, txt = run_client(argv)
                    o2 = call(api.store_metadata, pid, docp, fmt)
                    if o1.ok and o2.ok:
                        res.count("stdout_values_checked")
                        rel = os.path.relpath(str(o2.value), rb)
                        if rel not in txt:
                            wit["stdout"] = txt[:300]
                            res.violation(dict(shape, symptom="printed-path-differs"), wit)
                elif verb == "retrievemetadata":
                    o1, txt = run_client(argv)
                    o2 = call(api.retrieve_metadata, pid, fmt)
                    if o2.ok:
                        o2.value = read_all_and_close(o2.value)
                    if o1.ok and o2.ok:
                        res.count("stdout_values_checked")
                        if o2.value[:1000].decode() not in txt:
                            res.violation(dict(shape, symptom="printed-content-differs"), wit)
                else:
                    o1, txt = run_client(argv)
                    o2 = call(api.delete_metadata, pid, fmt if fmt else DEFAULT_NS)
            elif verb == "retrieveobject":
                o1, txt = run_client(argv)
                o2 = call(api.retrieve_object, pid)
                if o2.ok:
                    o2.value = read_all_and_close(o2.value)
                if o1.ok and o2.ok:
                    res.count("stdout_values_checked")
                    if o2.value[:1000].decode() not in txt:
                        res.violation(dict(shape, symptom="printed-content-differs"), wit)
            elif verb == "deleteobject":
                o1, txt = run_client(argv)
                o2 = call(api.delete_object, pid)
            else:
                raise ValueError(verb)
            res.count("client_vs_api_compared")
            wit.update(client=o1.brief(), api=o2.brief(), client_msg=o1.msg, argv=argv[1:])
            if o1.ok != o2.ok:
                res.violation(dict(shape, symptom="outcome-differs", client=o1.brief(), api=o2.brief()), wit)
            elif not o1.ok and variant != "nonnumeric_size" and not (variant == "empty_values" and "obj_size" in sub) \
                    and o1.exc_name != o2.exc_name:
                res.violation(dict(shape, symptom="exception-class-differs", client=o1.exc_name, api=o2.exc_name), wit)
            a1 = abstract(ra, lay, known, known_meta)
            a2 = abstract(rb, lay, known, known_meta)
            if a1.key() != a2.key():
                wit["cli_state"] = a1.describe()
                wit["api_state"] = a2.describe()
                res.violation(dict(shape, symptom="store-state-differs"), wit)
            if n % 60 == 0:
                res.sample({"argv": argv[1:], "client": o1.brief(), "api": o2.brief(), "stdout": txt[:160]})
            clear_atexit_tmp_handlers()
    finally:
        rmtree(scratch)
    return res


REPLAY_BY_RERUN = True     # (see runner.run_property: the recorded tier / seed workload is re-executed)


def replay(witness):
    raise NotImplementedError("replayed by re-running the recorded workload")
