"""Reference model of the public API (DESIGN.md 3.3).

Written from the property statements and the HashStore interface docstrings, not from the
implementation. It is only ever used as an oracle next to a real run.

Operations are plain dicts (JSON-serialisable, replayable):

  {"op": "store",  "pid": str|None, "content": name, "kind": ..., "offset": ..., "add": str|None,
                   "checksum": "none|ok|upper|mixed|wrong|wronglen", "calgo": str|None,
                   "size": "none|ok|wrong"}
  {"op": "tag",    "pid": str, "cid": ["of", name] | ["fake", int]}
  {"op": "delete", "pid": str}
  {"op": "dii",    "content": name, "checksum": ..., "calgo": str, "size": "ok|wrong",
                   "meta_algos": "default|with_calgo"}
  {"op": "smeta",  "pid": str, "fmt": str|None, "doc": name, "kind": ...}
  {"op": "rmeta",  "pid": str, "fmt": str|None}
  {"op": "dmeta",  "pid": str, "fmt": str|None}
  {"op": "retrieve", "pid": str}
  {"op": "hexdigest", "pid": str, "algo": str}
"""

import hashlib

from .common import ALL_ALGOS, DEFAULT_ALGOS

# spelling table: only forms the documentation / tests present as accepted
SPELLINGS = {}
for _a in ALL_ALGOS:
    forms = {_a, _a.upper()}
    if _a.startswith("sha3_"):
        n = _a[5:]
        forms |= {"sha3-" + n, "SHA3-" + n, "SHA3_" + n}
    elif _a.startswith("sha"):
        n = _a[3:]
        forms |= {"sha-" + n, "SHA-" + n, "sha_" + n, "SHA_" + n}
    SPELLINGS[_a] = sorted(forms)
CANON = {s: a for a, forms in SPELLINGS.items() for s in forms}


def canon_algo(spelling):
    """Independent normalisation: returns the hashlib name or None if not an accepted spelling."""
    return CANON.get(spelling)


ALREADY = frozenset({"HashStoreRefsAlreadyExists", "PidRefsAlreadyExistsError"})
MISMATCH_SIZE = frozenset({"NonMatchingObjSize"})
MISMATCH_SUM = frozenset({"NonMatchingChecksum"})
MISMATCH = MISMATCH_SIZE | MISMATCH_SUM
UNKNOWN_PID = frozenset({"PidRefsDoesNotExist"})
OBJ_MISSING = frozenset({"RefsFileExistsButCidObjMissing"})
BADARG = frozenset({"ValueError", "TypeError", "UnsupportedAlgorithm"})
NO_META = frozenset({"ValueError"})


class Expect:
    """What the model allows for one call."""

    def __init__(self, ok=False, errors=frozenset(), value=None, note=""):
        self.ok = ok                  # normal return allowed
        self.errors = frozenset(errors)  # exception class names allowed
        self.value = value            # dict of expectations on the return value when ok
        self.note = note

    def admits(self, outcome):
        if outcome.ok:
            return self.ok
        return outcome.exc_name in self.errors

    def describe(self):
        s = []
        if self.ok:
            s.append("ok")
        s += sorted(self.errors)
        return "|".join(s) + (f" ({self.note})" if self.note else "")


def wrong_checksum(true_hex, mode):
    if mode == "wrong":
        # flip one hex digit, same length
        c = true_hex[0]
        repl = "0" if c != "0" else "1"
        return repl + true_hex[1:]
    if mode == "wronglen":
        return true_hex[:-2]
    # strings that denote the same NUMBER as the digest but are not the digest (a comparison must be one of hex
    # strings, case-insensitively - not of integers)
    if mode == "numeric_0x":
        return "0x" + true_hex
    if mode == "numeric_padded":
        return "00" + true_hex
    if mode == "numeric_underscore":
        return true_hex[:4] + "_" + true_hex[4:]
    if mode == "numeric_plus":
        return "+" + true_hex
    if mode == "numeric_zero_dropped":
        return true_hex.lstrip("0") if true_hex.startswith("0") else "0" + true_hex
    raise ValueError(mode)


def mixed_case(hexstr):
    out = []
    up = True
    for ch in hexstr:
        if ch.isalpha():
            out.append(ch.upper() if up else ch.lower())
            up = not up
        else:
            out.append(ch)
    return "".join(out)


class Model:
    def __init__(self, layout, contents, docs=None):
        self.layout = layout
        self.contents = contents      # name -> bytes
        self.docs = docs or {}        # name -> bytes
        self.objects = set()          # cids that must be present
        self.permitted = set()        # cids that may be present (orphans the statement allows)
        self.bound = {}               # pid -> cid
        self.lists = {}               # cid -> [pid, ...]
        self.meta = {}                # (pid, effective fmt) -> bytes

    # ---------------------------------------------------------------- helpers
    def clone(self):
        m = Model(self.layout, self.contents, self.docs)
        m.objects = set(self.objects)
        m.permitted = set(self.permitted)
        m.bound = dict(self.bound)
        m.lists = {c: list(v) for c, v in self.lists.items()}
        m.meta = dict(self.meta)
        return m

    def key(self):
        return (
            tuple(sorted(self.objects)),
            tuple(sorted(self.bound.items())),
            tuple(sorted((c, tuple(sorted(v))) for c, v in self.lists.items())),
            tuple(sorted((k, hashlib.sha256(v).hexdigest()) for k, v in self.meta.items())),
        )

    def cid_of_spec(self, spec):
        if spec[0] == "returned":
            # the cid a store_object of that content must have reported (documented manual procedure:
            # tag_object(pid, obj_info.cid)); the harness passes what the real call returned
            return self.layout.cid_of(self.contents[spec[1]])
        if spec[0] == "of":
            return self.layout.cid_of(self.contents[spec[1]])
        if spec[0] == "fake":
            return hashlib.new(self.layout.halgo, b"never-stored-%d" % spec[1]).hexdigest()
        if spec[0] == "upper":
            # a caller-supplied cid whose letter case differs from the stored digest: a different string
            return self.layout.cid_of(self.contents[spec[1]]).upper()
        if spec[0] == "raw":
            return spec[1]
        raise ValueError(spec)

    def eff_fmt(self, fmt):
        return self.layout.ns if fmt is None else fmt

    def checksum_arg(self, op, data):
        """The concrete checksum string passed for op, and whether it is correct."""
        mode = op.get("checksum", "none")
        if mode == "none":
            return None, True
        algo = canon_algo(op["calgo"]) if op.get("calgo") else None
        if algo is None:
            return "00", False
        kw = {"length": 32} if algo.startswith("shake") else {}
        true_hex = hashlib.new(algo, data).hexdigest(**kw)
        if mode == "ok":
            return true_hex, True
        if mode == "upper":
            return true_hex.upper(), True
        if mode == "mixed":
            return mixed_case(true_hex), True
        return wrong_checksum(true_hex, mode), False

    def size_arg(self, op, data):
        mode = op.get("size", "none")
        if mode == "none":
            return None, True
        if mode == "ok":
            return len(data), True
        return len(data) + 1, False

    def expected_digest_keys(self, op):
        keys = set(DEFAULT_ALGOS)
        if op.get("pid") is None:
            return keys
        for k in ("add", "calgo"):
            if op.get(k):
                c = canon_algo(op[k])
                if c:
                    keys.add(c)
        return keys

    # ---------------------------------------------------------------- transitions
    def apply(self, op):
        return getattr(self, "_op_" + op["op"])(op)

    def _op_store(self, op):
        data = self.contents[op["content"]]
        cid = self.layout.cid_of(data)
        pid = op.get("pid")
        value = {
            "cid": cid,
            "size": len(data),
            "digest_keys": self.expected_digest_keys(op),
            "data": data,
        }
        if pid is None:
            self.objects.add(cid)
            self.permitted.discard(cid)
            return Expect(ok=True, value=value)
        _sum, sum_ok = self.checksum_arg(op, data)
        _size, size_ok = self.size_arg(op, data)
        if op.get("size") == "ok" and len(data) == 0:
            # an expected size of 0 is an argument error by contract
            return Expect(errors=BADARG, note="size 0 is not a valid expected size")
        if not (sum_ok and size_ok):
            errs = set()
            if not size_ok:
                errs |= MISMATCH_SIZE
            if not sum_ok:
                errs |= MISMATCH_SUM
            if pid in self.bound:
                errs |= ALREADY
            return Expect(errors=errs, note="invalid validation data")
        if pid in self.bound:
            # rejected; the statement allows the new content to stay behind as an orphan
            if cid not in self.objects:
                self.permitted.add(cid)
            return Expect(errors=ALREADY, note="pid already bound")
        self.objects.add(cid)
        self.permitted.discard(cid)
        self.bound[pid] = cid
        self.lists.setdefault(cid, []).append(pid)
        return Expect(ok=True, value=value)

    def _op_tag(self, op):
        pid = op["pid"]
        cid = self.cid_of_spec(op["cid"])
        if pid in self.bound:
            return Expect(errors=ALREADY, note="pid already bound")
        self.bound[pid] = cid
        self.lists.setdefault(cid, []).append(pid)
        return Expect(ok=True)

    def _op_delete(self, op):
        pid = op["pid"]
        if pid not in self.bound:
            return Expect(errors=UNKNOWN_PID, note="unknown pid")
        cid = self.bound.pop(pid)
        lst = self.lists.get(cid, [])
        if pid in lst:
            lst.remove(pid)
        if not lst:
            self.lists.pop(cid, None)
            self.objects.discard(cid)
            self.permitted.discard(cid)
        for k in [k for k in self.meta if k[0] == pid]:
            del self.meta[k]
        return Expect(ok=True)

    def _op_dii(self, op):
        data = self.contents[op["content"]]
        cid = self.layout.cid_of(data)
        if op.get("cid_case") == "upper" and cid.upper() != cid:
            cid = cid.upper()      # names no stored object (identifiers are compared as given)
        _sum, sum_ok = self.checksum_arg(op, data)
        size_ok = op.get("size", "ok") == "ok"
        present = cid in self.objects or cid in self.permitted
        if sum_ok and size_ok:
            if not present and canon_algo(op["calgo"]) not in DEFAULT_ALGOS and \
                    op.get("meta_algos", "default") == "default":
                # the digest would have to be computed from an object that is not there
                return Expect(errors={"FileNotFoundError"}, note="object absent, digest on demand")
            return Expect(ok=True)
        errs = set()
        if not size_ok:
            errs |= MISMATCH_SIZE
        if not sum_ok:
            errs |= MISMATCH_SUM
        if not present:
            errs |= {"FileNotFoundError"}
        if cid not in self.lists:
            self.objects.discard(cid)
            self.permitted.discard(cid)
        return Expect(errors=errs, note="invalid verdict")

    def _op_smeta(self, op):
        self.meta[(op["pid"], self.eff_fmt(op.get("fmt")))] = self.docs[op["doc"]]
        return Expect(ok=True, value={"path": self.layout.meta_rel(op["pid"], op.get("fmt"))})

    def _op_rmeta(self, op):
        k = (op["pid"], self.eff_fmt(op.get("fmt")))
        if k in self.meta:
            return Expect(ok=True, value={"data": self.meta[k]})
        return Expect(errors=NO_META, note="no such document")

    def _op_dmeta(self, op):
        if op.get("fmt") is None:
            for k in [k for k in self.meta if k[0] == op["pid"]]:
                del self.meta[k]
        else:
            self.meta.pop((op["pid"], op["fmt"]), None)
        return Expect(ok=True)

    def _op_retrieve(self, op):
        pid = op["pid"]
        if pid not in self.bound:
            return Expect(errors=UNKNOWN_PID)
        cid = self.bound[pid]
        if cid in self.objects:
            return Expect(ok=True, value={"cid": cid})
        if cid in self.permitted:
            return Expect(ok=True, errors=OBJ_MISSING, value={"cid": cid})
        return Expect(errors=OBJ_MISSING)

    def _op_hexdigest(self, op):
        pid = op["pid"]
        algo = canon_algo(op["algo"])
        if algo is None:
            return Expect(errors=BADARG)
        if pid not in self.bound:
            return Expect(errors=UNKNOWN_PID)
        cid = self.bound[pid]
        if cid in self.objects:
            return Expect(ok=True, value={"cid": cid, "algo": algo})
        return Expect(errors=OBJ_MISSING, ok=cid in self.permitted, value={"cid": cid, "algo": algo})

    # ---------------------------------------------------------------- comparison with disk
    def resolve_permitted(self, disk_objects):
        """Where the statement leaves a choice (orphan after a rejected store) follow the disk."""
        for cid in list(self.permitted):
            if cid in disk_objects:
                self.objects.add(cid)
            self.permitted.discard(cid)

    def compare(self, a):
        """Differences between the abstract disk state `a` and this model (empty list = equal)."""
        diffs = []
        disk_objs = set(a.objects)
        missing = self.objects - disk_objs
        extra = disk_objs - self.objects - self.permitted
        if missing:
            diffs.append(("object-missing", sorted(missing)))
        if extra:
            diffs.append(("object-unexpected", sorted(extra)))
        if a.pid_refs != self.bound:
            want, got = self.bound, a.pid_refs
            for p in sorted(set(want) | set(got)):
                if want.get(p) != got.get(p):
                    diffs.append(("pid-ref", (p, "model", want.get(p), "disk", got.get(p))))
        for cid in sorted(set(self.lists) | set(a.cid_refs)):
            want = self.lists.get(cid)
            got = a.cid_lines(cid)
            if want is None or got is None or sorted(want) != sorted(got):
                diffs.append(("cid-list", (cid, "model", want, "disk", got)))
            elif not a.cid_refs[cid].endswith("\n"):
                diffs.append(("cid-list-format", (cid, a.cid_refs[cid])))
        want_meta = {k: hashlib.sha256(v).hexdigest() for k, v in self.meta.items()}
        if a.metadata != want_meta:
            for k in sorted(set(want_meta) | set(a.metadata), key=repr):
                if want_meta.get(k) != a.metadata.get(k):
                    diffs.append(("metadata", (k, "model", want_meta.get(k), "disk", a.metadata.get(k))))
        return diffs

    def known_pids(self):
        return set(self.bound) | {p for v in self.lists.values() for p in v}
