"""Audit of the probe against the kernel's view (DESIGN.md 3.1): one canonical script is run in a child process
under `strace`; every mutating system call on a store path that strace saw must appear, in the same order, in the
probe's trace of the same run - otherwise some file-system call of the code under test bypasses the interposition
and the fault / crash / observation engines would silently enumerate too little."""

import json
import os
import re
import shutil
import subprocess
import sys
import tempfile

from .common import VERIF_ROOT, SRC, scratch_base

SCRIPT = r'''
import sys, os, json
sys.path.insert(0, %(verif)r)
from hsverif.common import load_repo, open_store
from hsverif import probe
load_repo()
root, data = sys.argv[1], sys.argv[2]
st = open_store(root)
probe.install()
rec = probe.Recorder(root)
os.write(2, b"AUDIT-BEGIN\n")
probe.set_controller(rec)
st.store_object("p1", data)
st.store_object("p2", data)
st.store_object("p3", sys.argv[3])
st.store_metadata("p1", data, "f1")
st.store_metadata("p1", sys.argv[3], "f1")
st.tag_object("p4", st.store_object(None, data).cid)
st.delete_metadata("p1", "f1")
st.delete_object("p1")
st.delete_object("p2")
st.delete_object("p4")
probe.clear_controller()
os.write(2, b"AUDIT-END\n")
print(json.dumps([[o.kind, o.func, o.path, o.path2] for o in rec.ops]))
'''

SYSCALLS = "openat,open,creat,rename,renameat,renameat2,unlink,unlinkat,mkdir,mkdirat,rmdir,flock,ftruncate,truncate,chmod,fchmodat,link,linkat,symlink,symlinkat,write"
MUT_PROBE = {"create", "wopen", "rename", "remove", "mkdir", "rmdir", "chmod", "lock", "flush-before-truncate", "truncate", "link"}


def run_audit():
    """Returns dict(status='ok'|'mismatch'|'unavailable', matched=int, detail=...)."""
    if shutil.which("strace") is None:
        return {"status": "unavailable", "detail": "strace not installed"}
    d = tempfile.mkdtemp(prefix="hsverif-audit-", dir=scratch_base())
    try:
        data = os.path.join(d, "data")
        data2 = os.path.join(d, "data2")
        with open(data, "wb") as f:
            f.write(b"x" * 9000)
        with open(data2, "wb") as f:
            f.write(b"y" * 10)
        script = os.path.join(d, "script.py")
        with open(script, "w") as f:
            f.write(SCRIPT % {"verif": VERIF_ROOT})
        trace = os.path.join(d, "trace.txt")
        env = dict(os.environ, HSVERIF_SRC=SRC)
        r = subprocess.run(["strace", "-f", "-o", trace, "-e", "trace=" + SYSCALLS, sys.executable, script,
                            os.path.join(d, "store"), data, data2], capture_output=True, text=True, timeout=120, env=env)
        if r.returncode != 0 or not os.path.exists(trace):
            return {"status": "unavailable", "detail": "strace run failed: " + (r.stderr or "")[-300:]}
        try:
            probe_ops = json.loads(r.stdout.strip().splitlines()[-1])
        except (ValueError, IndexError):
            return {"status": "unavailable", "detail": "no probe trace from the audited process"}
        root = os.path.join(d, "store")
        want = [(k, p, p2) for k, _f, p, p2 in probe_ops if k in MUT_PROBE and p and p.startswith(root)]
        got = parse_strace(trace, root)
        norm = lambda seq: [(k if k != "wopen" else "create-or-wopen", p, p2) for k, p, p2 in
                            [(("create-or-wopen" if k == "create" else k), p, p2) for k, p, p2 in seq]]
        a, b = norm(want), norm(got)
        if a == b:
            return {"status": "ok", "matched": len(a), "kinds": sorted({k for k, _p, _q in a})}
        # first difference
        i = 0
        while i < min(len(a), len(b)) and a[i] == b[i]:
            i += 1
        return {"status": "mismatch", "matched": i, "probe_next": a[i:i + 3], "strace_next": b[i:i + 3],
                "probe_len": len(a), "strace_len": len(b)}
    except subprocess.TimeoutExpired:
        return {"status": "unavailable", "detail": "strace run timed out"}
    finally:
        shutil.rmtree(d, ignore_errors=True)


def parse_strace(trace, root):
    out = []
    inside = False
    fds = {}
    rx = re.compile(r'^(\d+)\s+(\w+)\((.*)\)\s+=\s+(-?\d+)')
    for line in open(trace, errors="replace"):
        if "AUDIT-BEGIN" in line:
            inside = True
            continue
        if "AUDIT-END" in line:
            break
        m = rx.match(line)
        if not m:
            continue
        _pid, name, args, ret = m.groups()
        ret = int(ret)
        paths = re.findall(r'"((?:[^"\\]|\\.)*)"', args)
        if name in ("openat", "open", "creat"):
            if ret >= 0 and paths:
                fds[ret] = paths[0]
            if not inside or ret < 0 or not paths or not paths[0].startswith(root):
                continue
            if any(f in args for f in ("O_WRONLY", "O_RDWR", "O_CREAT", "O_TRUNC", "O_APPEND")):
                out.append(("create-or-wopen", paths[0], None))
            continue
        if not inside:
            continue
        if ret < 0 and name not in ("mkdir", "mkdirat"):
            continue
        if name in ("rename", "renameat", "renameat2") and len(paths) >= 2 and (paths[0].startswith(root) or paths[1].startswith(root)):
            out.append(("rename", paths[0], paths[1]))
        elif name in ("unlink", "unlinkat") and paths and paths[0].startswith(root):
            out.append(("remove", paths[0], None))
        elif name in ("mkdir", "mkdirat") and paths and paths[0].startswith(root):
            out.append(("mkdir", paths[0], None))
        elif name == "rmdir" and paths and paths[0].startswith(root):
            out.append(("rmdir", paths[0], None))
        elif name in ("chmod", "fchmodat") and paths and paths[0].startswith(root):
            out.append(("chmod", paths[0], None))
        elif name == "flock":
            fd = int(args.split(",")[0])
            p = fds.get(fd, "")
            if p.startswith(root):
                out.append(("lock", p, None))
        elif name == "ftruncate":
            fd = int(args.split(",")[0])
            p = fds.get(fd, "")
            if p.startswith(root):
                out.append(("flush-before-truncate", p, None))
        elif name in ("link", "linkat", "symlink", "symlinkat") and paths and any(x.startswith(root) for x in paths):
            out.append(("link", paths[0], paths[-1]))
    return out
