"""Controlled-concurrency engine (DESIGN.md 3.4): run a scenario (start state + 2-3 API calls)
under many scheduler-chosen interleavings and judge each against the sequential executions of the
same calls on the same code."""

import hashlib
import itertools
import os
import random
import shutil
import time

from . import absstate, probe, sched as S
from .common import (DEFAULT_NS, Outcome, call, load_repo, open_store, read_all_and_close, jsonable,
                     clear_atexit_tmp_handlers, Inconclusive)
from .gen import make_content, op_shape
from .seqengine import World


class Scenario:
    def __init__(self, name, start, calls, contents, docs=None, pids=(), fmts=(None,), mode="th",
                 start_class=None, cfg=None):
        self.name = name
        self.start = list(start)
        self.calls = list(calls)
        self.contents_spec = contents
        self.docs_spec = docs or {}
        self.pids = list(pids)
        self.fmts = list(fmts)
        self.mode = mode
        self.start_class = start_class or name.split("|")[0]
        self.cfg = cfg or dict(depth=3, width=2, algo="SHA-256", ns=DEFAULT_NS)

    def to_json(self):
        return {"name": self.name, "start": self.start, "calls": self.calls, "contents": self.contents_spec,
                "docs": self.docs_spec, "pids": self.pids, "fmts": self.fmts, "mode": self.mode,
                "start_class": self.start_class, "cfg": self.cfg}

    @staticmethod
    def from_json(d):
        return Scenario(d["name"], d["start"], d["calls"], d["contents"], d.get("docs"), d.get("pids", ()),
                        d.get("fmts", (None,)), d.get("mode", "th"), d.get("start_class"), d.get("cfg"))


FAULT_KINDS = {"create", "wopen", "rename", "remove", "mkdir", "lock", "ropen"}
DEST_CLASS = {"create", "wopen", "rename", "mkdir"}


class _LocalManager:
    """Stand-in for multiprocessing.Manager() inside scheduler-controlled runs (same `.list()` surface)."""

    def list(self, *a):
        return list(*a)

    def dict(self, *a, **k):
        return dict(*a, **k)

    def Lock(self):
        import threading
        return threading.Lock()

    def RLock(self):
        import threading
        return threading.RLock()

    def shutdown(self):
        pass


class Observation:
    __slots__ = ("outcomes", "okeys", "final", "final_key", "deadlock", "hang", "locked", "mutex_owned",
                 "trace", "points", "yield_points", "events", "followup", "harness_errors", "reader_values",
                 "observer_findings", "cond_stats", "observer_stats", "removal_findings", "line_points", "fault_fired",
                 "lazy_primitives")


def outcome_key(op, out):
    """Comparison key of one call's outcome (coarse for the documented error families)."""
    if out.ok:
        v = out.value
        if op["op"] == "store":
            return ("ok", getattr(v, "cid", None), getattr(v, "obj_size", None))
        if isinstance(v, (bytes, bytearray)):
            return ("ok", hashlib.sha256(v).hexdigest())
        return ("ok",)
    if out.cls in ("already_exists", "mismatch", "in_progress"):
        return ("err", out.cls)
    return ("err", out.exc_name)


class ScenarioRunner:
    """Prepares the start state once and runs schedules against copies of it."""

    def __init__(self, scn, scratch, observer_factory=None, dir_level_reduction=None):
        if dir_level_reduction is None:
            # Directory-level stat/mkdir operations are scheduling points only where directories can still be
            # missing: scenarios that start from an empty store and all metadata scenarios (a pid's metadata
            # directory is created by its first document). Elsewhere they are skipped (they commute).
            dir_level_reduction = not (scn.start_class.startswith("empty") or scn.start_class.startswith("absent")
                                       or any(o["op"] in ("smeta", "dmeta", "rmeta") for o in scn.calls))
        self.scn = scn
        self.scratch = scratch
        self.contents = {k: make_content(v["cseed"], v["size"]) for k, v in scn.contents_spec.items()}
        self.docs = {k: make_content(v["cseed"], v["size"]) for k, v in scn.docs_spec.items()}
        self.template = os.path.join(scratch, "template")
        self.rundir = os.path.join(scratch, "run")
        self.datadir = os.path.join(scratch, "data")
        self.layout = absstate.Layout(scn.cfg["depth"], scn.cfg["width"], scn.cfg["algo"], scn.cfg["ns"])
        self.observer_factory = observer_factory
        self.dir_level_reduction = dir_level_reduction
        self._seqspec = {}
        self.runs = 0
        self._leaf_depth = {
            "objects": 1 + len(self.layout.shard("0" * self.layout.hexlen)),
            "metadata": 2 + len(self.layout.shard("0" * self.layout.hexlen)),
            "refs": 2 + len(self.layout.shard("0" * self.layout.hexlen)),
        }
        self._prepare()

    def _env(self):
        os.environ["USE_MULTIPROCESSING"] = "True" if self.scn.mode == "mp" else "False"
        return os.environ

    def _prepare(self):
        shutil.rmtree(self.template, ignore_errors=True)
        self._env()
        try:
            w = World(self.scratch, self.contents, self.docs, pids=self.scn.pids, fmts=self.scn.fmts,
                      store_dir="template", datadir=self.datadir, **self.scn.cfg)
        finally:
            os.environ["USE_MULTIPROCESSING"] = "False"
        for op in self.scn.start:
            out, _ex = w.execute(op)
            if not out.ok:
                raise Inconclusive(f"start-state op {op} failed: {out.brief()} {out.msg}")
        # materialise every data file the calls will read (outside the store root)
        for op in self.scn.calls:
            if op["op"] == "store":
                w.data_path(op["content"])
            elif op["op"] == "smeta":
                w.data_path(op["doc"], w.docs)
        self._paths = dict(w._paths)
        self._followup_doc = os.path.join(self.datadir, "followup_document")
        with open(self._followup_doc, "wb") as f:
            f.write(b"<followup/>")
        self.start_abs = absstate.abstract(self.template, self.layout, self.scn.pids,
                                           [(p, f) for p in self.scn.pids for f in self.scn.fmts])

    def removal_monitor(self, op):
        """Invariant at a hook (C04): at the moment an object file is unlinked or renamed away from its
        permanent address, no non-empty cid reference list may exist for it. Evaluated immediately before the
        operation executes, i.e. on the state the removing thread acts on."""
        root = self._root
        if self._fault is not None:
            wk = getattr(S._cur, "worker", None)
            if wk is not None and wk.idx == self._fault[0] and op.kind in FAULT_KINDS and probe.under(root, op.path):
                self._fault_count += 1
                if self._fault_count == self._fault[1]:
                    self._fault_fired = op.describe(root)
                    if len(self._fault) > 3 and self._fault[3] and op.kind in DEST_CLASS:
                        # the failure persists for that destination (as in the single-call fault engine): putting a
                        # file there by another route (shutil.move's copy fall-back) fails as well
                        self._fault_dest = op.path2 or op.path
                    raise probe.errno_error(self._fault[2], op)
                if self._fault_dest is not None and op.kind in DEST_CLASS and (op.path2 or op.path) == self._fault_dest:
                    raise probe.errno_error(self._fault[2], op)
        # staging discipline (C09): a file in a tmp directory belongs to the call that created it until it is
        # renamed away or removed; a second thread opening the same staging file for writing would publish a mix
        w = getattr(S._cur, "worker", None)
        me = w.idx if w is not None else None
        if op.kind in ("create", "wopen") and probe.is_private_tmp(root, op.path):
            owner = self._tmp_owner.get(op.path)
            if owner is not None and owner != me:
                self._removal_findings.append(("staging-file-shared-between-calls",
                                               {"path": op.rel(root), "first_thread": owner, "second_thread": me}))
            self._tmp_owner.setdefault(op.path, me)
        elif op.kind in ("rename", "remove") and op.path in self._tmp_owner:
            self._tmp_owner.pop(op.path, None)
        if op.kind not in ("remove", "rename"):
            return
        src = op.path
        if not src or not src.startswith(root + os.sep):
            return
        rel = src[len(root) + 1:].split(os.sep)
        if rel[0] != "objects" or len(rel) < 2 or probe.staging_name(rel[1]) or rel[-1].endswith("_delete"):
            return
        cid = "".join(rel[1:])
        if self.layout.obj_rel(cid) != "/".join(rel):
            return
        with probe.suspended():
            refs = os.path.join(root, *self.layout.cidref_rel(cid).split("/"))
            try:
                with open(refs, "rb") as fh:
                    listed = fh.read()
            except FileNotFoundError:
                listed = b""
        if listed.strip():
            self._removal_findings.append(("object-removed-while-referenced",
                                           {"object": cid, "cid_list": listed.decode("utf-8", "replace")[:200],
                                            "operation": op.describe(root)}))

    def is_yield_op(self, op):
        root = self._root
        if not probe.op_is_shared(root, op):
            return False
        if self.dir_level_reduction and op.kind in ("probe", "getsize", "mkdir") and op.path2 is None:
            rel = op.path[len(root) + 1:].split(os.sep) if op.path.startswith(root + os.sep) else []
            if rel and rel[0] in self._leaf_depth and len(rel) < self._leaf_depth[rel[0]]:
                # directory-level stat/mkdir: commutes with every other operation of the API
                # (directories are never removed), so no scheduling decision is needed here
                return False
        return True

    def run(self, chooser, calls=None, with_followup=True, line_level=False, fault=None):
        """Execute one schedule. calls: indices into scn.calls (default all)."""
        scn = self.scn
        idxs = list(range(len(scn.calls))) if calls is None else list(calls)
        shutil.rmtree(self.rundir, ignore_errors=True)
        shutil.copytree(self.template, self.rundir)
        self._root = os.path.abspath(self.rundir)
        self._env()
        holder = {}
        fhs = load_repo()["fhs"]
        # every blocking primitive the store creates during construction is scheduler-owned (no dependence on
        # attribute names); the name-based replacement below is only a fall-back for a store that creates none
        owner = S.owned_primitives(fhs, lambda: holder.get("s"))
        try:
            with owner:
                store = open_store(self.rundir, **scn.cfg)
        finally:
            os.environ["USE_MULTIPROCESSING"] = "False"
        if scn.mode == "mp" and not getattr(store, "use_multiprocessing", False):
            raise Inconclusive("store built with USE_MULTIPROCESSING=True did not enter multiprocessing mode")
        conds = S.adopt_store(store, owner)
        self._n_constructed = len(owner.created)
        self._generic_lists = bool(conds)
        if not conds and not owner.created:
            try:
                conds = S.instrument_store(store, lambda: holder.get("s"), scn.mode)
            except AttributeError as err:
                raise Inconclusive(f"cannot take over the store's synchronisation primitives: {err}")
        env = World(self.scratch, self.contents, self.docs, pids=scn.pids, fmts=scn.fmts,
                    store_dir="run", store=store, datadir=self.datadir, **scn.cfg)
        env._paths = dict(self._paths)
        reader_values = {}

        def make(i):
            op = scn.calls[i]

            def fn():
                if op["op"] in ("rmeta", "retrieve") and op.get("chunked"):
                    # a reader the way a client uses it: open, read a chunk, (others may run), read the rest
                    st = store
                    if op["op"] == "rmeta":
                        o = call(st.retrieve_metadata, op["pid"], op.get("fmt")) if op.get("fmt") else call(st.retrieve_metadata, op["pid"])
                    else:
                        o = call(st.retrieve_object, op["pid"])
                    if o.ok:
                        stream = o.value
                        try:
                            first = stream.read(7)
                            holder["s"].yield_point("reader:between-chunks")
                            rest = stream.read()
                        finally:
                            stream.close()
                        o.value = first + rest
                    return o
                out, _extras = env.execute(op)
                return out
            return fn

        observer = self.observer_factory(self, store) if self.observer_factory else None
        self._removal_findings = []
        self._tmp_owner = {}
        self._fault = fault           # (worker index, k-th eligible operation of that worker, errno) or None
        self._fault_count = -1
        self._fault_fired = None
        self._fault_dest = None
        sch = S.Scheduler([make(i) for i in idxs], chooser, self.rundir, is_yield_op=self.is_yield_op,
                          observer=observer, pre_hook=self.removal_monitor)
        holder["s"] = sch
        probe.install()
        if line_level:
            S.LineYield.enable(sch, focus="sync" if line_level == "sync" else "all")
        # primitives the store creates lazily, inside a call (a per-identifier lock table, say), are scheduler-owned too
        owner.__enter__()
        try:
            sch.run()
        finally:
            owner.__exit__()
            if line_level:
                S.LineYield.disable()
        holder["s"] = None
        self.runs += 1
        ob = Observation()
        ob.deadlock = sch.deadlock
        ob.hang = sch.hang
        ob.trace = list(sch.trace)
        ob.points = list(sch.points)
        ob.yield_points = sch.yield_points
        ob.line_points = sch.line_points
        ob.fault_fired = self._fault_fired
        ob.events = sch.events
        ob.harness_errors = [repr(w.error) for w in sch.workers if w.error is not None]
        ob.outcomes = [w.result if isinstance(w.result, Outcome) else None for w in sch.workers]
        ob.okeys = tuple(outcome_key(scn.calls[i], o) if o is not None else ("none",) for i, o in zip(idxs, ob.outcomes))
        lists = S.locked_lists_generic(store) if self._generic_lists else S.locked_lists(store, scn.mode)
        if not lists:
            lists = S.locked_lists(store, scn.mode)
        ob.locked = {k: v for k, v in lists.items() if v}
        ob.mutex_owned = sorted({c.mutex.name for c in conds.values() if c.mutex.owner is not None}
                                | {lk.mutex.name for lk in owner.created if isinstance(lk, S.SchedLock)
                                   and lk.mutex.owner is not None})
        ob.lazy_primitives = max(0, len(owner.created) - self._n_constructed) if hasattr(self, "_n_constructed") else 0
        ob.cond_stats = {k: dict(c.stats) for k, c in conds.items()}
        ob.observer_findings = getattr(observer, "findings", []) if observer else []
        ob.removal_findings = list(self._removal_findings)
        ob.observer_stats = (getattr(observer, "observations", 0), getattr(observer, "files_read", 0))
        ob.final = absstate.abstract(self.rundir, self.layout, scn.pids, [(p, f) for p in scn.pids for f in scn.fmts])
        ob.final_key = ob.final.key()
        ob.followup = []
        if with_followup and not (ob.deadlock or ob.hang):
            owner.__enter__()
            try:
                ob.followup = self._followup(store, env)
            finally:
                owner.__exit__()
        if self.runs % 50 == 0:
            clear_atexit_tmp_handlers()
        return ob

    def _followup(self, store, env):
        """Every identifier involved must be operable again without blocking (C08)."""
        problems = []
        pids = sorted({op["pid"] for op in self.scn.calls if op.get("pid")})
        doc = self._followup_doc
        for pid in pids:
            calls = [("store_metadata", lambda: store.store_metadata(pid, doc, "followup"))]
            # the very documents the scenario touched must be free again as well
            for fmt in sorted({op.get("fmt") or "" for op in self.scn.calls if op["op"] in ("smeta", "dmeta", "rmeta") and op.get("pid") == pid}):
                calls.append((f"store_metadata({fmt or 'default'})", (lambda f=fmt: store.store_metadata(pid, doc, f) if f else store.store_metadata(pid, doc))))
            calls.append(("delete_object", lambda: store.delete_object(pid)))
            for name, fn in calls:
                try:
                    fn()
                except S.Deadlock as d:
                    problems.append({"pid": pid, "call": name, "problem": "would block forever: " + str(d)})
                except Exception:  # noqa - any documented error is a completed call
                    pass
        return problems

    # ------------------------------------------------------------------ sequential specification
    def seqspec(self, idxs):
        """Set of (outcome keys, final abstraction key) over all orders of the given calls, using
        the real code run without preemption."""
        key = tuple(idxs)
        if key not in self._seqspec:
            spec = {}
            for order in itertools.permutations(range(len(idxs))):
                ob = self.run(S.OrderChooser(order), calls=idxs, with_followup=False)
                if ob.deadlock or ob.hang or ob.harness_errors:
                    raise Inconclusive(f"sequential run of {self.scn.name} order {order} did not complete: "
                                       f"{ob.deadlock or ob.hang or ob.harness_errors}")
                spec.setdefault((ob.okeys, ob.final_key), order)
            self._seqspec[key] = spec
        return self._seqspec[key]


def judge(runner, ob, normalise=None):
    """Returns a list of (symptom, detail) problems for one observed schedule."""
    scn = runner.scn
    probs = []
    if normalise is not None:
        ob.okeys, _n = normalise(scn, ob.okeys)
    if ob.harness_errors:
        raise Inconclusive("harness error inside a worker: " + "; ".join(ob.harness_errors))
    if ob.hang:
        raise Inconclusive(f"watchdog: worker did not reach a yield point within {S.Scheduler.WATCHDOG_S}s: {ob.hang}")
    if ob.deadlock:
        probs.append(("deadlock", {"blocked": ob.deadlock, "locked_lists": ob.locked}))
        return probs
    if ob.locked or ob.mutex_owned:
        probs.append(("leaked-lock", {"lists": ob.locked, "mutexes": ob.mutex_owned}))
    for f in ob.removal_findings:
        probs.append(f)
    for f in ob.followup:
        probs.append(("follow-up-blocked", f))
    # linearizability against the sequential runs of the same code
    idxs = list(range(len(scn.calls)))
    keep = []
    for i in idxs:
        k = ob.okeys[i]
        if k == ("err", "in_progress") and scn.calls[i]["op"] == "store":
            same_pid_store = any(j != i and scn.calls[j]["op"] == "store" and scn.calls[j].get("pid") == scn.calls[i].get("pid")
                                 for j in idxs)
            if same_pid_store:
                continue   # the one extra outcome the statement permits
        keep.append(i)
    spec = runner.seqspec(keep)
    okeys = tuple(ob.okeys[i] for i in keep)
    if (okeys, ob.final_key) not in spec:
        outcome_sets = {k[0] for k in spec}
        if okeys not in outcome_sets:
            # name the call whose outcome no sequential order produces
            culprit = None
            for pos, i in enumerate(keep):
                if all(k[pos] != okeys[pos] for k in outcome_sets):
                    culprit = i
                    break
            probs.append(("outcome-not-sequential", {
                "observed": [list(k) for k in okeys],
                "sequential": sorted({tuple(map(tuple, k)) for k in outcome_sets})[:6],
                "culprit": culprit if culprit is not None else "combination",
                "culprit_op": scn.calls[culprit]["op"] if culprit is not None else "combination",
                "culprit_outcome": list(okeys[keep.index(culprit)]) if culprit is not None else None,
            }))
        else:
            probs.append(("state-not-sequential", {"observed_outcomes": [list(k) for k in okeys],
                                                   "final": ob.final.describe()}))
    return probs


def state_symptoms(runner, ob):
    """Names what is wrong with a final state (labels for a state already known to match no
    sequential order)."""
    a = ob.final
    out = [kind for kind, _d in absstate.invariant(a, runner.layout, allow_missing_objects=True)]
    for pid, cid in a.pid_refs.items():
        if cid in a.cid_refs and cid not in a.objects:
            out.append("dangling-binding")
    if not out and any(cid not in a.cid_refs for cid in a.objects):
        # nothing structurally wrong - an object without references is a legal state - but no sequential order of
        # these calls leaves it behind
        out.append("unreferenced-object-left")
    return sorted(set(out))


def relation(scn):
    pids = [op.get("pid") for op in scn.calls]
    cids = []
    for op in scn.calls:
        if op["op"] in ("store", "dii"):
            cids.append(("of", op["content"]))
        elif op["op"] == "tag":
            cids.append(tuple(op["cid"]))
        elif op["op"] == "delete":
            cids.append(("pid", op["pid"]))
        else:
            cids.append(None)
    same_pid = len([p for p in pids if p is not None]) != len({p for p in pids if p is not None})
    same_cid = len([c for c in cids if c and c[0] != "pid"]) != len({c for c in cids if c and c[0] != "pid"})
    if same_pid and same_cid:
        return "same-pid+same-cid"
    if same_pid:
        return "same-pid"
    if same_cid:
        return "same-cid"
    return "related-through-start-state"


def signature(runner, ob, symptom, detail):
    scn = runner.scn
    sig = {"symptom": symptom, "calls": sorted(op_shape(op) for op in scn.calls), "relation": relation(scn),
           "start": scn.start_class}
    if symptom == "outcome-not-sequential":
        sig["culprit_op"] = detail.get("culprit_op")
        sig["culprit_outcome"] = "/".join(map(str, detail.get("culprit_outcome") or []))
        c = detail.get("culprit")
        if isinstance(c, int):
            pid = scn.calls[c].get("pid")
            sig["other_calls_on_same_pid"] = sorted({o["op"] for j, o in enumerate(scn.calls)
                                                     if j != c and pid is not None and o.get("pid") == pid})
    if symptom == "state-not-sequential":
        sig["state"] = state_symptoms(runner, ob)
        sig["object_removers_racing_a_store"] = object_removers(scn)
    return sig


def object_removers(scn):
    """Mechanism label: which calls of the scenario can remove the object that a store_object of the
    same scenario relies on (delete_object of a pid the start state binds to that content, or
    delete_if_invalid_object with wrong data on that content)."""
    stored = {o["content"] for o in scn.calls if o["op"] == "store" and o.get("pid") is not None}
    bound = {}
    # a pid may be bound by the start state or by another call of the same scenario (triples)
    for s_ in list(scn.start) + list(scn.calls):
        if s_["op"] == "store" and s_.get("pid"):
            bound.setdefault(s_["pid"], set()).add(s_["content"])
        elif s_["op"] == "tag":
            bound.setdefault(s_["pid"], set()).add(s_["cid"][1])
    out = set()
    for o in scn.calls:
        if o["op"] == "delete" and bound.get(o["pid"], set()) & stored:
            out.add("delete_object")
        if o["op"] == "dii" and o.get("checksum") != "ok" and o["content"] in stored:
            out.add("delete_if_invalid_object")
    return sorted(out)


def witness(runner, ob, symptom, detail):
    return {"engine": "conc", "scenario": runner.scn.to_json(), "schedule": ob.trace,
            "outcomes": [o.brief() if o else None for o in ob.outcomes], "symptom": symptom,
            "detail": jsonable(detail), "events": [f"T{t}:{d}" for t, d in ob.events][:200]}


def explore(runner, bound, budget=None, rng=None, n_random=0, pct=0, normalise=None, n_line=0):
    """Preemption-bounded DFS (+ optional random walks / PCT). Yields (observation, problems)."""
    seen = set()
    stack = [[]]
    n = 0
    if budget is None:
        budget = 20000      # hard cap per scenario
    while stack:
        prefix = stack.pop()
        ob = runner.run(S.PrefixChooser(prefix))
        n += 1
        key = tuple(ob.trace)
        new = key not in seen
        seen.add(key)
        yield ob, judge(runner, ob, normalise), new
        for p in S.dfs_prefixes(ob.points, len(prefix), 0, bound):
            stack.append(p)
        if budget is not None and n >= budget:
            break
    for _ in range(n_random):
        ob = runner.run(S.RandomChooser(rng, rng.choice([0.1, 0.3, 0.6])))
        key = tuple(ob.trace)
        new = key not in seen
        seen.add(key)
        yield ob, judge(runner, ob, normalise), new
    for _ in range(pct):
        ob = runner.run(S.PCTChooser(rng, len(runner.scn.calls), 3, 80))
        key = tuple(ob.trace)
        new = key not in seen
        seen.add(key)
        yield ob, judge(runner, ob, normalise), new


def explore_sync_focus(runner, rng, n, normalise=None):
    """Random schedules with statement-level yield points in the synchronisation code only, switching there with
    high probability (see sched.FocusChooser)."""
    for i in range(n):
        ch = S.FocusChooser(rng, p_sync=rng.choice([0.2, 0.35, 0.5]), p_fs=rng.choice([0.05, 0.12, 0.25]))
        ob = runner.run(ch, line_level="sync")
        yield ob, judge(runner, ob, normalise), True


def explore_line_level(runner, rng, n, normalise=None):
    """Random / PCT schedules with statement-level yield points (see sched.LineYield)."""
    for i in range(n):
        if i % 3 == 2:
            ch = S.PCTChooser(rng, len(runner.scn.calls), 3, 1500)
        else:
            ch = S.RandomChooser(rng, rng.choice([0.01, 0.03, 0.08]))
        ob = runner.run(ch, line_level=True)
        yield ob, judge(runner, ob, normalise), True


def hygiene_problems(runner, ob):
    """C08 symptoms only (no sequential specification needed): deadlock, leaked claims / locks, blocked follow-up."""
    if ob.harness_errors:
        raise Inconclusive("harness error inside a worker: " + "; ".join(ob.harness_errors))
    if ob.hang:
        raise Inconclusive(f"watchdog: worker did not reach a yield point within {S.Scheduler.WATCHDOG_S}s: {ob.hang}")
    probs = []
    if ob.deadlock:
        return [("deadlock", {"blocked": ob.deadlock, "locked_lists": ob.locked})]
    if ob.locked or ob.mutex_owned:
        probs.append(("leaked-lock", {"lists": ob.locked, "mutexes": ob.mutex_owned}))
    for f in ob.followup:
        probs.append(("follow-up-blocked", f))
    return probs


def explore_with_faults(runner, rng, bound, n_random, errno_code, dfs_cap=400, site_filter=None, persistent=False):
    """For each call of the scenario and each fault site of that call: schedules (preemption-bounded DFS + random) in
    which that one operation fails with an OSError while the other call runs concurrently. Yields
    (observation, problems, faulted worker, site)."""
    ncalls = len(runner.scn.calls)
    for wk in range(ncalls):
        k = 0
        while True:
            ob = runner.run(S.OrderChooser([1 - wk if ncalls == 2 else (wk + 1) % ncalls, wk]), fault=(wk, k, errno_code, persistent))
            if ob.fault_fired is None:
                break           # the call has fewer than k+1 fault sites
            yield ob, hygiene_problems(runner, ob), wk, k
            if site_filter is not None and not site_filter(ob.fault_fired):
                k += 1
                continue        # (only the plain run for sites outside the caller's focus)
            stack = [[]] if bound > 0 else []
            n = 0
            while stack and n < dfs_cap:
                prefix = stack.pop()
                ob = runner.run(S.PrefixChooser(prefix), fault=(wk, k, errno_code, persistent))
                n += 1
                yield ob, hygiene_problems(runner, ob), wk, k
                for p in S.dfs_prefixes(ob.points, len(prefix), 0, bound):
                    stack.append(p)
            for _ in range(n_random):
                ob = runner.run(S.RandomChooser(rng, rng.choice([0.1, 0.3, 0.5])), fault=(wk, k, errno_code, persistent))
                yield ob, hygiene_problems(runner, ob), wk, k
            k += 1
